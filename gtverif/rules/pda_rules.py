"""R-MODEL M5 (push/pop case split decided on concrete symbol classes), R-PDAFORM (normal-form typestate at the
triple construction), R-PHASE (the five Chomsky phases in the same order in three places), guard pairing of
pda_pop_push with pda_can_pop_push."""
import ast

from .. import abseval
from ..abseval import Unsupported
from ..astutil import u, names_in, walk_no_nested, atoms_of, must_atoms
from ..model import norm
from .models import single_def, resolve_alias

EPS = ''
SYMS = ['', 'x', 'y']        # epsilon and two distinct stack symbols
DUMMY = '#dummy'


def _eval_method(cal, env2):
    """value returned by a small boolean method (PDA.is_push_pop_transition) on concrete symbols: straight-line code with
    if / early returns, evaluated by the analyser's expression evaluator"""
    def run(stmts):
        for st in stmts:
            if isinstance(st, ast.Expr):
                continue
            if isinstance(st, ast.Assign) and len(st.targets) == 1 and isinstance(st.targets[0], ast.Name):
                if u(st.value).endswith('.epsilon'):
                    env2[st.targets[0].id] = EPS
                else:
                    env2[st.targets[0].id] = abseval.ev(st.value, env2)
                continue
            if isinstance(st, ast.If):
                r = run(st.body) if abseval.ev(st.test, env2) else run(st.orelse)
                if r is not None:
                    return r
                continue
            if isinstance(st, ast.Return):
                return ('ret', abseval.ev(st.value, env2))
            raise Unsupported('statement ' + type(st).__name__)
        return None
    r = run(cal.node.body)
    if r is None:
        raise Unsupported('method returns nothing')
    return r[1]


def _eval_cond(ctx, f, e, env):
    """evaluate a branch condition on concrete symbols; method calls are evaluated through their bodies"""
    if isinstance(e, ast.Call):
        cal = ctx.callee(f, e)
        if cal is not None:
            params = [p.arg for p in cal.pos_params]
            args = list(e.args)
            if params and params[0] == 'self':
                params = params[1:]
            env2 = {}
            for p, a in zip(params, args):
                env2[p] = abseval.ev(a, env)
            env2.setdefault('epsilon', EPS)
            return bool(_eval_method(cal, env2))
    if isinstance(e, ast.BoolOp):
        vs = [_eval_cond(ctx, f, v, env) for v in e.values]
        return all(vs) if isinstance(e.op, ast.And) else any(vs)
    if isinstance(e, ast.UnaryOp) and isinstance(e.op, ast.Not):
        return not _eval_cond(ctx, f, e.operand, env)
    return bool(abseval.ev(e, env))


def check_push_pop_split(ctx, rep, f, rule='R-MODEL.M5'):
    """pda_to_push_pop_in_place: for every (u, v) over {eps, x, y}^2 exactly one branch of the case split is taken, every
    transition it inserts is a push or a pop, and the net stack effect of the inserted chain is 'pop u, push v'."""
    # the inner loop: for (q, v) in Q1 with the if/elif chain
    chains = [n for n in walk_no_nested(f.node) if isinstance(n, ast.If) and any(isinstance(x, ast.Call) and isinstance(x.func, ast.Attribute) and x.func.attr == 'is_push_pop_transition' for x in ast.walk(n.test))]
    if not chains:
        rep.undecided(rule, f, 'def ' + f.name, 'case split on is_push_pop_transition not found')
        return 0
    chain = chains[0]
    # names: epsilon alias, dummy
    dummy_names = set()
    for n in walk_no_nested(f.node):
        if isinstance(n, ast.Assign) and len(n.targets) == 1 and isinstance(n.targets[0], ast.Name):
            v = n.value
            if isinstance(v, ast.Call) and (ctx.callee_name(f, v) == 'fresh_symbol' or (isinstance(v.func, ast.Name) and v.func.id == 'Symbol')):
                dummy_names.add(n.targets[0].id)
    branches = []
    cur = chain
    while True:
        branches.append((cur.test, cur.body))
        if len(cur.orelse) == 1 and isinstance(cur.orelse[0], ast.If):
            cur = cur.orelse[0]
        else:
            if cur.orelse:
                branches.append((None, cur.orelse))
            break
    n_cases = 0
    ok_all = True
    for uu in SYMS:
        for vv in SYMS:
            env = {'u': uu, 'v': vv, 'epsilon': EPS, 'p': 'P', 'q': 'Q', 'a': 'a'}
            for d in dummy_names:
                env[d] = DUMMY
            n_cases += 1
            taken = None
            try:
                for i, (test, body) in enumerate(branches):
                    if test is None or _eval_cond(ctx, f, test, env):
                        taken = (i, body)
                        break
            except Unsupported as e:
                rep.undecided(rule, f, chain, 'branch condition outside the fragment: {}'.format(e))
                return n_cases
            case = '(u={}, v={})'.format(uu or 'eps', vv or 'eps')
            if taken is None:
                ok_all = False
                rep.violates(rule, f, chain, 'no branch of the case split handles a transition with {}: the transition is dropped from the push/pop automaton'.format(case))
                continue
            i, body = taken
            inserted = []     # (pop, push) per inserted transition, in source order
            for st in body:
                for c in ast.walk(st):
                    if isinstance(c, ast.Call) and isinstance(c.func, ast.Attribute) and c.func.attr == 'add' and isinstance(c.func.value, ast.Subscript) \
                            and isinstance(c.func.value.slice, ast.Tuple) and len(c.func.value.slice.elts) == 3 and c.args and isinstance(c.args[0], ast.Tuple):
                        try:
                            pop = abseval.ev(c.func.value.slice.elts[2], env)
                            push = abseval.ev(c.args[0].elts[1], env)
                            frm = u(c.func.value.slice.elts[0])
                            to = u(c.args[0].elts[0])
                            sym = u(c.func.value.slice.elts[1])
                        except Unsupported as e:
                            rep.undecided(rule, f, c, 'inserted transition outside the fragment: {}'.format(e))
                            return n_cases
                        inserted.append((pop, push, frm, to, sym, c))
            if not inserted:
                ok_all = False
                rep.violates(rule, f, branches[i][0] if branches[i][0] is not None else chain, 'the branch taken for {} inserts no transition'.format(case))
                continue
            for (pop, push, frm, to, sym, c) in inserted:
                if not ((pop == EPS) != (push == EPS)):
                    ok_all = False
                    rep.violates(rule, f, c, 'for {} the inserted transition pops {!r} and pushes {!r}: it is neither a push nor a pop move'.format(case, pop, push))
            # net effect of the chain p -> ... -> q (order the chain by from/to)
            order = _chain_order(inserted)
            if order is None:
                rep.undecided(rule, f, chain, 'inserted transitions do not form a chain from p to q')
                continue
            stack = []
            popped_below = []
            for (pop, push, frm, to, sym, c) in order:
                if pop != EPS:
                    if stack:
                        if stack[-1] != pop:
                            ok_all = False
                            rep.violates(rule, f, c, 'for {} the chain pops {!r} although it has just pushed {!r}'.format(case, pop, stack[-1]))
                        else:
                            stack.pop()
                    else:
                        popped_below.append(pop)
                if push != EPS:
                    stack.append(push)
            want_pop = [uu] if uu != EPS else []
            want_push = [vv] if vv != EPS else []
            if popped_below != want_pop or stack != want_push:
                ok_all = False
                rep.violates(rule, f, branches[i][0] if branches[i][0] is not None else chain,
                             'for {} the inserted chain has the net stack effect pop {} / push {} but the original transition pops {} and pushes {}'.format(
                                 case, popped_below or 'nothing', stack or 'nothing', want_pop or 'nothing', want_push or 'nothing'))
            # the input symbol is read exactly once along the chain
            reads = [sym for (_, _, _, _, sym, _) in order if sym not in ('epsilon', 'P.epsilon')]
            if reads != ['a']:
                ok_all = False
                rep.violates(rule, f, chain, 'for {} the inserted chain reads the input symbols {} instead of exactly the original symbol once'.format(case, reads))
    if ok_all:
        rep.holds(rule, f, chain, 'for all {} combinations of (u, v) over {{eps, x, y}} one branch is taken, every inserted transition is a push or a pop, and the chain pops u / pushes v reading the input symbol once'.format(n_cases))
    return n_cases


def _chain_order(inserted):
    if len(inserted) == 1:
        return inserted
    by_from = {x[2]: x for x in inserted}
    starts = [x for x in inserted if x[2] not in {y[3] for y in inserted}]
    if len(starts) != 1:
        return None
    out = [starts[0]]
    while out[-1][3] in by_from and len(out) < len(inserted):
        out.append(by_from[out[-1][3]])
    return out if len(out) == len(inserted) else None


def _pop_symbol_origin(f, call):
    """'arbitrary' when the third argument of pda_pop_push is bound by iterating the transition relation (for (p, a, u), Q1
    in delta.items()), 'safe' when it ranges over a local list made of epsilon and of <stack>[-1] added under a test that
    the stack is not empty (the stack being the second argument), None otherwise."""
    stack_txt, sym = u(call.args[1]), call.args[2]
    if not isinstance(sym, ast.Name):
        return None
    units = [f] + ([f.parent] if f.parent is not None else [])
    for g in units:
        for lp in ast.walk(g.node):
            its = []
            if isinstance(lp, ast.For):
                its.append((lp.target, lp.iter))
            if isinstance(lp, (ast.GeneratorExp, ast.ListComp, ast.SetComp, ast.DictComp)):
                its += [(g0.target, g0.iter) for g0 in lp.generators]
            for tg, it in its:
                if sym.id not in {x.id for x in ast.walk(tg) if isinstance(x, ast.Name)}:
                    continue
                if not any(x is call for x in ast.walk(lp)):
                    continue
                if 'delta' in u(it):
                    return 'arbitrary'
                if isinstance(tg, ast.Name) and isinstance(it, ast.Name):
                    # for u in pops:   pops = [epsilon];  if stack: pops.append(stack[-1])
                    lst = it.id
                    srcs, ok = [], True
                    for st in walk_no_nested(f.node):
                        if isinstance(st, ast.Assign) and len(st.targets) == 1 and isinstance(st.targets[0], ast.Name) and st.targets[0].id == lst:
                            if isinstance(st.value, ast.List):
                                srcs += [(x, None) for x in st.value.elts]
                            else:
                                ok = False
                        if isinstance(st, ast.If):
                            for b in st.body:
                                if isinstance(b, ast.Expr) and isinstance(b.value, ast.Call) and isinstance(b.value.func, ast.Attribute) and b.value.func.attr == 'append' \
                                        and u(b.value.func.value) == lst and b.value.args:
                                    srcs.append((b.value.args[0], st.test))
                    for st in walk_no_nested(f.node):
                        if isinstance(st, ast.Expr) and isinstance(st.value, ast.Call) and isinstance(st.value.func, ast.Attribute) and st.value.func.attr in ('append', 'extend', 'insert') \
                                and u(st.value.func.value) == lst and not any(st.value.args and st.value.args[0] is x for x, _ in srcs):
                            ok = False
                    if not ok or not srcs:
                        return None
                    for x, cond in srcs:
                        tx = u(x)
                        if tx in ('epsilon', 'P.epsilon') or tx.endswith('.epsilon'):
                            continue
                        if tx == stack_txt + '[-1]' and cond is not None and (u(cond) == stack_txt or u(cond).startswith(stack_txt + ' and') or u(cond) in ('len({}) > 0'.format(stack_txt), 'len({}) != 0'.format(stack_txt))):
                            continue
                        return None
                    return 'safe'
    return None


def check_pop_push_guard(ctx, rep, funcs, rule='R-PDAFORM.guard'):
    """every pda_pop_push call is dominated by pda_can_pop_push on the same arguments"""
    n = 0
    units = []
    seen_units = set()
    for f0 in funcs:
        stack = [f0]
        while stack:
            g0 = stack.pop()
            if g0.qualname not in seen_units:
                seen_units.add(g0.qualname)
                units.append(g0)
            stack.extend(g0.nested.values())
    for f in units:
        fx = ctx.facts(f)
        ma = must_atoms(fx)
        for c in [x for x in walk_no_nested(f.node) if isinstance(x, ast.Call)]:
            if ctx.callee_name(f, c) != 'pda_pop_push':
                continue
            nid = fx.stmt_of_expr(c)
            if nid is None:
                continue
            n += 1
            args = ', '.join(u(a) for a in c.args)
            want = 'pda_can_pop_push({})'.format(args)
            atoms = set(ma.get(nid, frozenset())) | {a[:4] for a in fx.guard_atoms(nid)}
            ok = any(a[0] == 'truthy' and a[3] is True and a[1] == want for a in atoms)
            # same expression, short-circuit: pda_can_pop_push(..) and pda_pop_push(..) == ...
            if not ok:
                node = fx.cfg.node[nid]
                from .misc import _local_guards
                for r in fx._own_roots(node):
                    for e, pol in _local_guards(r, c):
                        conj = e.values if (pol and isinstance(e, ast.BoolOp) and isinstance(e.op, ast.And)) else [e]
                        if pol and any(u(w) == want for w in conj):
                            ok = True
            if ok:
                rep.holds(rule, f, c, 'dominated by pda_can_pop_push on the same arguments')
                continue
            # no guard: where does the popped symbol come from?  A symbol read off the transition relation is arbitrary (the call
            # raises when it is not on top); epsilon, or the top of a stack known to be non-empty, can always be popped
            origin = _pop_symbol_origin(f, c) if len(c.args) >= 3 else None
            if origin == 'safe':
                rep.holds(rule, f, c, 'the popped symbol is epsilon or the top of the (non-empty) stack by construction')
            elif origin == 'arbitrary':
                rep.violates(rule, f, c, 'pda_pop_push({}) is not dominated by pda_can_pop_push on the same arguments: it raises when the top of the stack differs'.format(args))
            else:
                rep.undecided(rule, f, c, 'pda_pop_push({}) is not dominated by pda_can_pop_push and the origin of the popped symbol is not recognised'.format(args))
    return n


def check_pda_to_cfg_pipeline(ctx, rep, f, rule='R-PDAFORM'):
    """at the triple construction the automaton has one accepting state, is in push/pop form and accepts on empty stack"""
    fx = ctx.facts(f)
    cfg = fx.cfg
    # the construction starts where the rule list R is built: first statement that reads P.delta into T_push/T_pop or appends rules
    anchors = [n for n in walk_no_nested(f.node) if isinstance(n, ast.For) and 'delta' in u(n.iter)]
    if not anchors:
        rep.undecided(rule, f, 'def ' + f.name, 'triple construction not found')
        return
    anchor = cfg.n_of(anchors[0])
    need = {'pda_to_one_accepting_state_in_place': 'one accepting state', 'pda_to_push_pop_in_place': 'push/pop form',
            'pda_to_accept_on_empty_stack_in_place': 'acceptance on empty stack'}
    calls = {}
    for c in ctx.prog.calls_in(f):
        nm = ctx.callee_name(f, c)
        if nm in need:
            calls.setdefault(nm, []).append(c)
    order = []
    for nm, what in need.items():
        cs = calls.get(nm, [])
        if not cs:
            # pda_to_push_pop_in_place itself establishes the single accepting state
            if nm == 'pda_to_one_accepting_state_in_place' and calls.get('pda_to_push_pop_in_place'):
                continue
            rep.violates(rule, f, anchors[0], 'the triple construction is reached without establishing {} ({} is never called)'.format(what, nm))
            continue
        c = cs[0]
        nid = fx.stmt_of_expr(c)
        order.append((nm, nid))
        # the call is guarded by the negation of the corresponding predicate or unconditional
        atoms = fx.guard_atoms(nid)
        guards_ok = True
        why = 'unconditional'
        if atoms:
            a = atoms[-1]
            why = '{} {}'.format('if' if a[3] else 'if not', a[1])
            if nm == 'pda_to_push_pop_in_place':
                guards_ok = a[0] == 'truthy' and a[3] is False and 'pda_is_push_pop' in a[1]
            elif nm == 'pda_to_one_accepting_state_in_place':
                guards_ok = a[0] == 'lencmp' and ((a[2] == ('NotEq', 1) and a[3] is True) or (a[2] == ('Eq', 1) and a[3] is False))
            elif nm == 'pda_to_accept_on_empty_stack_in_place':
                guards_ok = a[0] == 'truthy' and a[3] is False and a[1] in f.params
        if not cfg.dominates(nid, anchor) and not atoms:
            rep.violates(rule, f, c, '{} does not dominate the triple construction'.format(nm))
        elif guards_ok:
            rep.holds(rule, f, c, '{} is established before the triple construction ({})'.format(what, why))
        else:
            rep.violates(rule, f, c, '{} is skipped under the wrong condition ({}): the construction can run on an automaton without {}'.format(nm, why, what))
    # the empty-stack form must come after push/pop form?  (its added transitions are a push and a pop, so either order
    # keeps push/pop form; but one-accepting-state must not come after empty-stack, which resets F)
    pos = dict(order)
    if 'pda_to_one_accepting_state_in_place' in pos and 'pda_to_accept_on_empty_stack_in_place' in pos:
        if not cfg.dominates(pos['pda_to_one_accepting_state_in_place'], pos['pda_to_accept_on_empty_stack_in_place']) and \
                pos['pda_to_accept_on_empty_stack_in_place'] in cfg.reachable(cfg.entry) and \
                pos['pda_to_one_accepting_state_in_place'] in cfg.reachable(pos['pda_to_accept_on_empty_stack_in_place']):
            rep.violates(rule, f, calls['pda_to_one_accepting_state_in_place'][0], 'the single-accepting-state form is applied after the empty-stack form')
    # the start variable is A_{q0, q_accept} with q_accept taken from F
    copies = [n for n in walk_no_nested(f.node) if isinstance(n, ast.Assign) and isinstance(n.value, ast.Call) and ctx.callee_name(f, n.value) == 'copy.deepcopy']
    if copies and cfg.dominates(cfg.n_of(copies[0]), min(n for _, n in order) if order else anchor):
        rep.holds(rule, f, copies[0], 'all normal forms are applied to a deep copy of the argument')
    else:
        rep.violates(rule, f, 'def ' + f.name, 'the in-place normal forms are not applied to a deep copy made before them')


def check_empty_stack_form(ctx, rep, f, rule='R-PDAFORM.drain'):
    """the empty-stack form can only drain a stack if its added transitions depend on Gamma (one pop move per symbol):
    this PDA model has no wildcard pop"""
    fx = ctx.facts(f)
    # transitions added: delta[...].add((..)) sites
    adds = [c for c in walk_no_nested(f.node) if isinstance(c, ast.Call) and isinstance(c.func, ast.Attribute) and c.func.attr == 'add'
            and isinstance(c.func.value, ast.Subscript) and isinstance(c.func.value.slice, ast.Tuple) and len(c.func.value.slice.elts) == 3]
    gamma_names = {'Gamma'} | {n.targets[0].id for n in walk_no_nested(f.node) if isinstance(n, ast.Assign) and isinstance(n.targets[0], ast.Name) and u(n.value).endswith('.Gamma')}
    def _iter_names(e):
        # names of the iterable, through locals that hold a hoisted set expression (other = Gamma - {bottom})
        out = set(names_in(e))
        for _ in range(3):
            for nm in list(out):
                for d in single_def(f, nm):
                    out |= set(names_in(d))
        return out
    loops_over_gamma = [n for n in walk_no_nested(f.node) if isinstance(n, ast.For) and _iter_names(n.iter) & gamma_names]
    depends = False
    for lp in loops_over_gamma:
        for c in adds:
            if any(x is c for x in ast.walk(lp)):
                depends = True
    if depends:
        rep.holds(rule, f, loops_over_gamma[0], 'the empty-stack form adds one pop move per stack symbol (drain)')
        # the drain target must itself pop every symbol (a self-loop), otherwise at most one left-over symbol is removed
        lp = loops_over_gamma[0]
        ok_self = False
        targets = set()
        for c in adds:
            if any(x is c for x in ast.walk(lp)):
                src = c.func.value.slice.elts[0]
                tgt = c.args[0].elts[0] if c.args and isinstance(c.args[0], ast.Tuple) else None
                if tgt is None:
                    continue
                targets.add(u(tgt))
                # the source ranges over an enclosing loop whose iterable mentions the target state
                for outer in walk_no_nested(f.node):
                    if isinstance(outer, ast.For) and any(x is lp for x in ast.walk(outer)) and u(outer.target) == u(src) and u(tgt) in _iter_names(outer.iter):
                        ok_self = True
                if u(src) == u(tgt):
                    ok_self = True
        if ok_self:
            rep.holds(rule, f, 'drain self-loop', 'the drain state {} pops every stack symbol into itself, so any number of left-over symbols is removed'.format(sorted(targets)))
        else:
            rep.violates(rule, f, lp, 'the pop moves for the stack symbols lead into {} but that state does not pop the remaining symbols itself: only one left-over symbol can be removed, words accepted with two or more symbols on the stack are lost'.format(sorted(targets)))
    else:
        rep.violates(rule, f, 'def ' + f.name, 'no transition added by the empty-stack form depends on the stack alphabet: the stack is never drained, so a PDA that accepts with symbols left on its stack loses those words (q0 -a,eps->x- q1 accepts a; its empty-stack form and its grammar accept nothing); doc/main.tex specifies a drain state')
    return len(adds)


PHASES = ['cfg_add_new_start_variable_in_place', 'cfg_remove_epsilon_rules_in_place', 'cfg_eliminate_unit_rules_in_place',
          'cfg_make_rules_of_length_two_in_place', 'cfg_eliminate_terminals_in_place']
POSTCONDITIONS = ['check_cfg_has_start_variable', 'check_cfg_has_no_epsilon_rules', 'check_cfg_has_no_unit_productions',
                  'check_cfg_has_right_hand_sides_of_length_at_most_two', 'check_cfg_is_chomsky']


def _call_sequence(ctx, f, names):
    fx = ctx.facts(f)
    seq = []
    for c in ctx.prog.calls_in(f):
        nm = ctx.callee_name(f, c)
        if nm in names:
            seq.append((c.lineno, c.col_offset, nm, c))
    seq.sort()
    return [(nm, c) for _, _, nm, c in seq]


def check_phase_order(ctx, rep, f_pipeline, f_selector, f_checker, rule='R-PHASE'):
    """the five phases run in the same (Sipser) order in the pipeline, the exercise's phase selector and the checker's
    postcondition table; selector and checker key phase k with `phase >= k`"""
    seq = [nm for nm, _ in _call_sequence(ctx, f_pipeline, set(PHASES))]
    table_form = False
    if not seq:
        # a table of phases run by a loop:  phases = ((name, f1), (name, f2), ...);  for name, phase in phases: phase(G)
        for st in walk_no_nested(f_pipeline.node):
            if not (isinstance(st, ast.Assign) and len(st.targets) == 1 and isinstance(st.targets[0], ast.Name) and isinstance(st.value, (ast.Tuple, ast.List))):
                continue
            funcs, pos = [], None
            for el in st.value.elts:
                parts = list(el.elts) if isinstance(el, (ast.Tuple, ast.List)) else [el]
                hits = [(i, x.id) for i, x in enumerate(parts) if isinstance(x, ast.Name) and x.id in PHASES]
                if len(hits) != 1 or (pos is not None and hits[0][0] != pos) or len(parts) != (1 if not isinstance(el, (ast.Tuple, ast.List)) else len(el.elts)):
                    funcs = None
                    break
                pos = hits[0][0]
                funcs.append((hits[0][1], len(parts), isinstance(el, (ast.Tuple, ast.List))))
            if not funcs:
                continue
            tbl = st.targets[0].id
            for lp in walk_no_nested(f_pipeline.node):
                if isinstance(lp, ast.For) and isinstance(lp.iter, ast.Name) and lp.iter.id == tbl and not lp.orelse:
                    tg = lp.target
                    callee = tg.elts[pos].id if isinstance(tg, ast.Tuple) and len(tg.elts) == funcs[0][1] and isinstance(tg.elts[pos], ast.Name) else (tg.id if isinstance(tg, ast.Name) and not funcs[0][2] else None)
                    called = [c for b in lp.body for c in ast.walk(b) if isinstance(c, ast.Call) and isinstance(c.func, ast.Name) and c.func.id == callee]
                    unconditional = any(isinstance(b, ast.Expr) and isinstance(b.value, ast.Call) and isinstance(b.value.func, ast.Name) and b.value.func.id == callee for b in lp.body)
                    no_exit = not any(isinstance(x, (ast.Break, ast.Continue, ast.Return)) for b in lp.body for x in ast.walk(b))
                    if callee and called and unconditional and no_exit:
                        seq = [nm for nm, _, _ in funcs]
                        table_form = True
    if seq == PHASES:
        rep.holds(rule, f_pipeline, 'phase sequence', 'pipeline applies the five phases in the order start, epsilon, unit, length-two, terminals' + (' (a table of phases run by one loop)' if table_form else ''))
    else:
        rep.violates(rule, f_pipeline, 'phase sequence', 'the pipeline applies the phases in the order {} instead of {}'.format(seq, PHASES))
    # straight-line: each phase call dominates the next
    fx = ctx.facts(f_pipeline)
    cs = _call_sequence(ctx, f_pipeline, set(PHASES))
    for (n1, c1), (n2, c2) in zip(cs, cs[1:]):
        if not fx.cfg.dominates(fx.stmt_of_expr(c1), fx.stmt_of_expr(c2)):
            rep.violates(rule, f_pipeline, c2, '{} can run without {} having run before'.format(n2, n1))
    for f, table, what in ((f_selector, PHASES, 'phase selector'), (f_checker, POSTCONDITIONS, 'postcondition table')):
        fx = ctx.facts(f)
        cs = _call_sequence(ctx, f, set(table))
        got = []
        for nm, c in cs:
            nid = fx.stmt_of_expr(c)
            ks = [a for a in fx.guard_atoms(nid) if a[0] == 'cmp' and 'phase' in a[1]]
            k = None
            for a in ks:
                try:
                    t = ast.parse(a[1], mode='eval').body
                    if isinstance(t, ast.Compare) and isinstance(t.ops[0], ast.GtE) and u(t.left) == 'phase' and isinstance(t.comparators[0], ast.Constant) and a[3] is True:
                        k = t.comparators[0].value
                except SyntaxError:
                    pass
            got.append((nm, k))
        want = [(nm, i + 1) for i, nm in enumerate(table)]
        if got == want:
            rep.holds(rule, f, what, 'the {} lists phase k under `phase >= k` in the same order as the pipeline'.format(what))
        else:
            bad = [(g, w) for g, w in zip(got, want) if g != w] or [(got, want)]
            rep.violates(rule, f, what, 'the {} does not match the pipeline: found {} where {} is expected'.format(what, bad[0][0], bad[0][1]))


def check_added_transitions_push_pop(ctx, rep, f, rule='R-PDAFORM.form'):
    """every transition added by a normal form that runs after the push/pop conversion is itself a push or a pop"""
    nonemp = set()
    for n in walk_no_nested(f.node):
        if isinstance(n, ast.Assign) and len(n.targets) == 1 and isinstance(n.targets[0], ast.Name) and isinstance(n.value, ast.Call) \
                and ctx.callee_name(f, n.value) == 'fresh_symbol':
            nonemp.add(n.targets[0].id)
        if isinstance(n, ast.For) and isinstance(n.target, ast.Name) and 'Gamma' in u(n.iter):
            nonemp.add(n.target.id)
    adds = [c for c in walk_no_nested(f.node) if isinstance(c, ast.Call) and isinstance(c.func, ast.Attribute) and c.func.attr == 'add'
            and isinstance(c.func.value, ast.Subscript) and isinstance(c.func.value.slice, ast.Tuple) and len(c.func.value.slice.elts) == 3
            and c.args and isinstance(c.args[0], ast.Tuple) and len(c.args[0].elts) == 2]
    for c in adds:
        env = {'epsilon': EPS}
        for nm in nonemp:
            env[nm] = 'x'
        try:
            pop = abseval.ev(c.func.value.slice.elts[2], env)
            push = abseval.ev(c.args[0].elts[1], env)
        except Unsupported as e:
            rep.undecided(rule, f, c, 'stack symbols of the added transition not recognised: {}'.format(e))
            continue
        if (pop == EPS) != (push == EPS):
            rep.holds(rule, f, c, 'added transition is a {} move'.format('push' if pop == EPS else 'pop'))
        else:
            rep.violates(rule, f, c, 'the added transition pops {!r} and pushes {!r}: it is neither a push nor a pop, although this form is applied after the push/pop conversion in pda_to_cfg'.format(pop, push))
    return len(adds)


def _check_find_transition_syntactic(ctx, rep, f, rule='R-PDAFORM.witness'):
    """the predecessor returned for a trace step must reach the WHOLE target configuration: state, and the complete stack
    that results from the move (comparing only the height or the top lets a predecessor with a different stack below the
    top through, and the trace then contains a step that is no move of the automaton)"""
    fx = ctx.facts(f)
    tparam = [p for p in f.params if p == 'target']
    rets = [r for r in walk_no_nested(f.node) if isinstance(r, ast.Return) and r.value is not None and not (isinstance(r.value, ast.Constant) and r.value.value is None)]
    if not tparam or not rets:
        rep.undecided(rule, f, 'def ' + f.name, 'no target parameter / no witness return')
        return 0
    n = 0
    for r in rets:
        nid = fx.cfg.n_of(r)
        atoms = fx.guard_atoms(nid)
        whole = False
        partial = []
        state_ok = False
        for a in atoms:
            if a[0] != 'eq' or a[3] is not True:
                continue
            sides = [a[1], a[2]]
            for x, y in (sides, sides[::-1]):
                xs = x.replace(' ', '')
                if xs == 'target.q':
                    state_ok = True
                if xs in ('target.stack', 'target'):
                    try:
                        other = ast.parse(y, mode='eval').body
                    except SyntaxError:
                        continue
                    other = resolve_alias(f, other) if isinstance(other, ast.Name) else other
                    if any(isinstance(c, ast.Call) and isinstance(c.func, ast.Name) and c.func.id in ('pda_pop_push', 'PDAState') for c in ast.walk(other)):
                        whole = True
                elif 'target.stack' in xs:
                    partial.append(a)
        # the comparison may be delegated to a local predicate:  if reaches_target(src, u, q, v): return src
        for a in atoms:
            if a[0] == 'truthy' and a[3] is True:
                try:
                    call = ast.parse(a[1], mode='eval').body
                except SyntaxError:
                    continue
                if isinstance(call, ast.Call) and isinstance(call.func, ast.Name) and call.func.id in f.nested:
                    h = f.nested[call.func.id]
                    hrets = [r0.value for r0 in walk_no_nested(h.node) if isinstance(r0, ast.Return) and r0.value is not None and not (isinstance(r0.value, ast.Constant) and not r0.value.value)]

                    def has_whole(e):
                        for c in ast.walk(e):
                            if isinstance(c, ast.Compare) and len(c.ops) == 1 and isinstance(c.ops[0], ast.Eq):
                                xs, ys = u(c.left).replace(' ', ''), u(c.comparators[0]).replace(' ', '')
                                for x, y in ((xs, c.comparators[0]), (ys, c.left)):
                                    if x in ('target.stack', 'target') and any(isinstance(k, ast.Call) and isinstance(k.func, ast.Name) and k.func.id in ('pda_pop_push', 'PDAState') for k in ast.walk(y)):
                                        return True
                        return False
                    if hrets and all(has_whole(e) for e in hrets):
                        whole = True
                        if any('target.q' in u(t).replace(' ', '') for t in ast.walk(h.node) if isinstance(t, ast.Compare)):
                            state_ok = True
        n += 1
        if whole and (state_ok or any('PDAState' in a[1] + a[2] for a in atoms)):
            rep.holds(rule, f, r, 'the witness is returned only when the state and the complete resulting stack equal the target configuration')
        elif partial and not whole:
            rep.violates(rule, f, r, 'the predecessor is accepted after comparing only a part of the target stack ({}): two configurations of equal height and top but different contents below are confused, and the returned run contains a step that is no transition of the PDA'.format(
                '; '.join('{} == {}'.format(a[1], a[2]) for a in partial[:2])))
        else:
            rep.undecided(rule, f, r, 'comparison with the target configuration not recognised')
    return n


def check_push_pop_predicate(ctx, rep, f, rule='R-PDAFORM.form'):
    """pda_is_push_pop is a UNIVERSAL statement over single transitions (key, target): it consults the per-transition
    predicate for every target of every key.  An existential aggregate over the targets of a key (any(...)) accepts a key
    that mixes a push with a move that neither pushes nor pops."""
    calls = [c for c in ast.walk(f.node) if isinstance(c, ast.Call) and isinstance(c.func, ast.Attribute) and c.func.attr == 'is_push_pop_transition']
    anys = [c for c in ast.walk(f.node) if isinstance(c, ast.Call) and isinstance(c.func, ast.Name) and c.func.id == 'any']
    if anys:
        rep.violates(rule, f, anys[0], 'the push/pop test aggregates the targets of one key with any(...): a key whose targets mix a push with a move that neither pushes nor pops is accepted, pda_to_cfg then skips the normalisation and silently drops such moves')
        return 1
    if calls:
        c = calls[0]
        # every loop variable of both levels reaches the call
        names = {x.id for a in c.args for x in ast.walk(a) if isinstance(x, ast.Name)}
        if len(names) >= 5:
            rep.holds(rule, f, c, 'every single transition (key and target) is judged by is_push_pop_transition')
        else:
            rep.undecided(rule, f, c, 'is_push_pop_transition is not applied to all five components')
        return 1
    rep.undecided(rule, f, 'def ' + f.name, 'per-transition predicate not found')
    return 1


# ---- the stack step: guard and action decided on a finite model -----------------------------------------------------------

def _run_small(f, env, protected=()):
    """value returned (or ('raise',)) by a small function: assignments, if / else, return, raise; expressions through the
    analyser's evaluator on the concrete values of the finite model"""
    def run(stmts):
        for st in stmts:
            if isinstance(st, ast.Expr) and isinstance(st.value, ast.Constant):
                continue
            if isinstance(st, ast.Expr):
                c = st.value
                # result.append(v) / result.extend([...]) on a local list
                if isinstance(c, ast.Call) and isinstance(c.func, ast.Attribute) and isinstance(c.func.value, ast.Name) and c.func.attr in ('append', 'extend', 'pop') \
                        and isinstance(env.get(c.func.value.id), list) and c.func.value.id not in protected:
                    lst = env[c.func.value.id]
                    if c.func.attr == 'append' and len(c.args) == 1:
                        lst.append(abseval.ev(c.args[0], env))
                    elif c.func.attr == 'extend' and len(c.args) == 1:
                        lst.extend(abseval.ev(c.args[0], env))
                    elif c.func.attr == 'pop' and not c.args:
                        lst.pop()
                    else:
                        raise Unsupported('call ' + u(c))
                    continue
                if isinstance(c, ast.Call) and isinstance(c.func, ast.Name) and c.func.id in ('print', 'log'):
                    continue
                raise Unsupported('statement ' + u(st)[:40])
            if isinstance(st, (ast.Assign, ast.AnnAssign)) and isinstance(st.targets[0] if isinstance(st, ast.Assign) else st.target, ast.Name):
                tg = st.targets[0] if isinstance(st, ast.Assign) else st.target
                if st.value is not None:
                    v = abseval.ev(st.value, env)
                    # a slice / concatenation is a new list; a plain alias of a protected argument stays protected
                    if isinstance(st.value, ast.Name) and st.value.id in protected:
                        raise Unsupported('alias of the argument ' + st.value.id)
                    env[tg.id] = list(v) if isinstance(v, list) else v
                continue
            if isinstance(st, ast.If):
                r = run(st.body) if abseval.ev(st.test, env) else run(st.orelse)
                if r is not None:
                    return r
                continue
            if isinstance(st, ast.Return):
                return ('ret', abseval.ev(st.value, env) if st.value is not None else None)
            if isinstance(st, ast.Raise):
                return ('raise',)
            if isinstance(st, ast.Assert):
                if not abseval.ev(st.test, env):
                    return ('raise',)
                continue
            raise Unsupported('statement ' + type(st).__name__)
        return None
    r = run(f.node.body)
    return r if r is not None else ('ret', None)


def check_stack_step(ctx, rep, f_can, f_do, rule='R-MODEL.M9'):
    """pda_can_pop_push(P, stack, u, v) is true exactly when u is epsilon or u is on top of the stack, and
    pda_pop_push returns the stack with u popped (unless epsilon) and v pushed (unless epsilon), leaving the stack it was
    given untouched -- decided for every combination of u in {eps, X}, v in {eps, X, Y} and stack in
    {[], [X], [Y], [Z, X], [X, Y]}, for the epsilon symbols '' and '_' (the functions only compare symbols for equality,
    so three distinct symbols cover all orderings).  Evaluated by the analyser's finite-model evaluator."""
    from ..miniexec import Interp, Obj, Raised
    n = 0
    stacks = [[], ['X'], ['Y'], ['Z', 'X'], ['X', 'Y']]
    for f, kind in ((f_can, 'guard'), (f_do, 'action')):
        ps = [p.arg for p in f.pos_params]
        if len(ps) != 4:
            rep.undecided(rule, f, 'def ' + f.name, 'four parameters (P, stack, u, v) expected')
            continue
        bad = None
        cases = 0
        try:
            for eps in ('', '_'):
                for uu in (eps, 'X'):
                    for vv in (eps, 'X', 'Y'):
                        for st in stacks:
                            arg = list(st)
                            P = Obj('PDA', epsilon=eps)
                            try:
                                r = ('ret', Interp(ctx).call(f, [P, arg, uu, vv]))
                            except Raised:
                                r = ('raise',)
                            cases += 1
                            possible = uu == eps or (bool(st) and st[-1] == uu)
                            show = lambda x: 'epsilon' if x == eps else x
                            if arg != st:
                                bad = (show(uu), show(vv), st, 'changes the stack it was given to {} (the configuration it came from is corrupted)'.format(arg))
                            elif kind == 'guard':
                                got = bool(r[1]) if r[0] == 'ret' else None
                                if got is not possible:
                                    bad = (show(uu), show(vv), st, 'answers {} where the step is {}'.format(got, 'possible' if possible else 'impossible'))
                            elif possible:      # the action is only called under the guard
                                want = list(st)
                                if uu != eps:
                                    want = want[:-1]
                                if vv != eps:
                                    want = want + [vv]
                                if r[0] != 'ret' or not isinstance(r[1], list) or r[1] != want:
                                    bad = (show(uu), show(vv), st, 'returns {} where {} is expected'.format('an error' if r[0] == 'raise' else r[1], want))
                            if bad:
                                break
                        if bad:
                            break
                    if bad:
                        break
                if bad:
                    break
        except Unsupported as e:
            rep.undecided(rule, f, 'def ' + f.name, 'body outside the fragment of the finite-model evaluator: {}'.format(e))
            continue
        n += 1
        if bad:
            uu, vv, st, what = bad
            rep.violates(rule, f, 'def ' + f.name, 'stack step {}: for pop {} / push {} on the stack {} (top on the right) the function {}: a transition that replaces the top symbol is '
                         'treated wrongly, so computations through it are lost or invented'.format(kind, uu, vv, st, what))
        else:
            rep.holds(rule, f, 'def ' + f.name, 'stack step {} agrees with the definition on all {} cases of the finite model (u, v in epsilon / symbols, five stacks, two epsilon symbols)'.format(kind, cases))
    return n



def check_find_transition(ctx, rep, f, rule='R-PDAFORM.witness'):
    """pda_find_transition(P, R, a, target) returns a configuration of R from which ONE a-move of P leads to exactly the
    target configuration (state and complete stack), or None when R has none.  Decided on a finite model with the
    analyser's evaluator: a PDA with a push, a pop, a replace and a no-op move, candidate sets drawn from five
    configurations, eleven targets, two input symbols; the expected predecessors are computed by the rule itself from the
    definition of a move.  The function compares states, symbols and stacks for equality only.  Outside the evaluator's
    fragment the syntactic form of the rule is used."""
    import itertools
    from ..miniexec import Interp, Obj, Raised
    ps = [p.arg for p in f.pos_params]
    if len(ps) != 4:
        return _check_find_transition_syntactic(ctx, rep, f, rule)
    eps = '_'
    delta = {('p', 'a', eps): {('q', 'X')}, ('p', 'a', 'X'): {('q', eps), ('q', 'Y')}, ('p', 'b', eps): {('q', eps)}, ('q', 'a', 'Y'): {('p', 'Y')}}

    def cfgs():
        return [Obj('PDAState', q='p', stack=[]), Obj('PDAState', q='p', stack=['X']), Obj('PDAState', q='p', stack=['Y']), Obj('PDAState', q='p', stack=['Y', 'X']), Obj('PDAState', q='q', stack=['Y'])]

    def moves(c, a):
        out = []
        for (p, a1, u0), tg in delta.items():
            if p != c._f['q'] or a1 != a:
                continue
            for (q, v) in tg:
                st = list(c._f['stack'])
                if u0 != eps:
                    if not st or st[-1] != u0:
                        continue
                    st = st[:-1]
                if v != eps:
                    st = st + [v]
                out.append((q, st))
        return out
    targets = [('q', ['X']), ('q', []), ('q', ['Y']), ('q', ['Y', 'X']), ('q', ['X', 'X']), ('q', ['Y', 'Y']), ('q', ['Y', 'X', 'X']), ('p', ['Y']), ('p', ['X']), ('q', ['X', 'Y']), ('p', [])]
    bad = None
    runs = 0
    try:
        for k in (1, 2, 5):
            for idx in itertools.combinations(range(5), k):
                for (tq, ts) in targets:
                    for a in ('a', 'b'):
                        R = [c for i, c in enumerate(cfgs()) if i in idx]
                        P = Obj('PDA', delta={k0: set(v0) for k0, v0 in delta.items()}, epsilon=eps, Q={'p', 'q'}, Sigma={'a', 'b'}, Gamma={'X', 'Y'}, q0='p', F={'q'})
                        target = Obj('PDAState', q=tq, stack=list(ts))
                        valid = [c for c in R if (tq, ts) in moves(c, a)]
                        try:
                            r = Interp(ctx, classes={'PDAState': lambda q, stack: Obj('PDAState', q=q, stack=list(stack))}).call(f, [P, R, a, target])
                        except Raised as ex:
                            bad = 'for the candidates {}, the symbol {} and the target ({}, {}) the function raises {}'.format([(c._f['q'], c._f['stack']) for c in R], a, tq, ts, ex.name)
                            break
                        runs += 1
                        desc = 'for the candidates {}, the symbol {} and the target ({}, {})'.format([(c._f['q'], c._f['stack']) for c in R], a, tq, ts)
                        if r is None:
                            if valid:
                                bad = '{} no predecessor is returned although ({}, {}) has a move to the target: the trace of an accepted word cannot be produced'.format(desc, valid[0]._f['q'], valid[0]._f['stack'])
                        elif not isinstance(r, Obj) or r._cls != 'PDAState':
                            raise Unsupported('result is not a configuration')
                        elif not any(r == c for c in valid):
                            bad = '{} the configuration ({}, {}) is returned, from which no {}-move of the automaton leads to the target (the whole target configuration, state and complete stack, must be reached): the trace contains a step that is no transition'.format(desc, r._f['q'], r._f['stack'], a)
                        if bad:
                            break
                    if bad:
                        break
                if bad:
                    break
            if bad:
                break
    except Unsupported as e:
        rep.note('{}: finite-model evaluation not applicable ({}); syntactic rule used'.format(f.short, e))
        return _check_find_transition_syntactic(ctx, rep, f, rule)
    if bad:
        rep.violates(rule, f, 'def ' + f.name, bad)
    else:
        rep.holds(rule, f, 'def ' + f.name, 'on all {} cases of the finite model the returned configuration has a move to exactly the target configuration, and None is returned only when no candidate has one'.format(runs))
    return 1


def check_push_pop_model(ctx, rep, f, rule='R-MODEL.M5'):
    """pda_to_push_pop_in_place, decided on a finite model with the analyser's evaluator: a PDA with one transition of each
    kind (push, pop, no-op, replace, no-op on epsilon input, replace by the same symbol), for the epsilon symbols '' and '_'.
    Required of the result: every transition pushes or pops (exactly one of the two stack symbols is epsilon); a push / pop
    transition of the operand is still there; a no-op became "push a symbol that is new to Gamma, then pop it" and a replace
    became "pop u, then push v", each through an intermediate state that is new to Q, used by this transition only and
    registered in Q; nothing else was added.  The construction treats each transition on its own, by the kind of its two
    stack symbols, so one transition per kind covers its case split.  Returns True when decided."""
    from ..miniexec import Interp, Obj, Raised
    bad = None
    try:
        for eps in ('', '_'):
            trans = [('p', 'a', eps, 'q', 'X'), ('p', 'a', 'X', 'q', eps), ('p', 'b', eps, 'q', eps), ('p', 'b', 'X', 'q', 'Y'), ('q', eps, eps, 'p', eps), ('q', 'a', 'X', 'q', 'X'),
                     ('M1', 'a', eps, 'q', eps)]
            delta = {}
            for (p, a, u0, q, v) in trans:
                delta.setdefault((p, a, u0), set()).add((q, v))
            Q0, G0 = {'p', 'q', 'M1'}, {'X', 'Y', '∅'}
            P = Obj('PDA', Q=set(Q0), Sigma={'a', 'b'}, Gamma=set(G0), delta=delta, q0='p', F={'q'}, epsilon=eps)
            try:
                Interp(ctx, stubs={'pda_to_one_accepting_state_in_place': lambda it, a, k: None}).call(f, [P])
            except Raised as ex:
                bad = 'the construction raises {} on a PDA with one transition of each kind'.format(ex.name)
                break
            D = P._f['delta']
            new = [(p, a, u0, q, v) for (p, a, u0), tg in D.items() for (q, v) in tg]
            show = lambda t: '({}, {}, {}) -> ({}, {})'.format(t[0], t[1] or 'eps', t[2] or 'eps', t[3], t[4] or 'eps') if eps == '' else '({}, {}, {}) -> ({}, {})'.format(*t)
            for t in new:
                if (t[2] == eps) == (t[4] == eps):
                    bad = 'the result contains the transition {}, which is neither a push nor a pop'.format(show(t))
            mids_used = []
            expected = 0
            for t in trans:
                p, a, u0, q, v = t
                if bad:
                    break
                if (u0 == eps) != (v == eps):
                    expected += 1
                    if t not in new:
                        bad = 'the push / pop transition {} of the operand is missing from the result'.format(show(t))
                    continue
                expected += 2
                found = None
                for (p1, a1, u1, m, x) in new:
                    if (p1, a1) != (p, a) or m in Q0:
                        continue
                    for (m2, a2, y, q2, v2) in new:
                        if m2 != m or a2 != eps or q2 != q:
                            continue
                        if u0 == eps:       # no-op: push a new symbol, pop it
                            if u1 == eps and x != eps and x not in G0 and y == x and v2 == eps:
                                found = m
                        else:               # replace: pop u, push v
                            if u1 == u0 and x == eps and y == eps and v2 == v:
                                found = m
                if found is None:
                    bad = 'the transition {} of the operand is not simulated by two steps through a new intermediate state ({})'.format(show(t), 'push a symbol that is new to Gamma, then pop it' if u0 == eps else 'pop, then push')
                else:
                    mids_used.append(found)
            if bad:
                break
            if len(set(mids_used)) != len(mids_used):
                bad = 'two transitions of the operand are routed through the same intermediate state {}: the paths can be mixed, so the language changes'.format(sorted(m for m in mids_used if mids_used.count(m) > 1)[0])
            elif not set(mids_used) <= P._f['Q']:
                bad = 'an intermediate state is not added to Q'
            elif len(new) != expected:
                bad = 'the result has {} transitions where {} are expected (something else was added or dropped)'.format(len(new), expected)
            elif not {x for (_, _, _, _, x) in new if x != eps} | {x for (_, _, x, _, _) in new if x != eps} <= P._f['Gamma']:
                bad = 'a stack symbol used by the result is not in Gamma'
            if bad:
                break
    except Unsupported as e:
        rep.note('{}: finite-model evaluation not applicable ({})'.format(f.short, e))
        return False
    if bad:
        rep.violates(rule, f, 'def ' + f.name, bad)
    else:
        rep.holds(rule, f, 'def ' + f.name, 'on the finite model (one transition of each kind, two epsilon symbols) the result is in push/pop form, keeps the push / pop transitions, and simulates every other transition by two steps through its own new intermediate state')
    return True


def check_empty_stack_model(ctx, rep, f, rule='R-PDAFORM.drain'):
    """pda_to_accept_on_empty_stack_in_place, decided on a finite model with the analyser's evaluator: a PDA with two
    accepting states, two stack symbols and the epsilon symbols '' / '_' (one of its states is called q_initial1, one of its
    stack symbols is the first candidate of the bottom marker).  Required of the result, up to the names chosen: one new
    stack symbol (the bottom marker) and three new states; the new initial state pushes the marker and enters the old
    initial state; every old accepting state and the drain state pop every OLD stack symbol into the drain state and pop
    the marker into the new accepting state, which is the only accepting state; the old transitions are kept and nothing
    else is added.  The construction is uniform in the states, the stack symbols and the accepting states, so two of each
    cover it.  Returns True when decided."""
    from ..miniexec import Interp, Obj, Raised
    bad = None
    try:
        for eps in ('', '_'):
            old = {('p', 'a', eps): {('q', 'X')}, ('q', 'b', 'X'): {('r', eps)}, ('q', 'a', eps): {('q', '$')}}
            Q0, G0, F0 = {'p', 'q', 'r', 'q_initial1'}, {'X', '$'}, {'q', 'r'}
            delta = collections_defaultdict_set({k: set(v) for k, v in old.items()})
            P = Obj('PDA', Q=set(Q0), Sigma={'a', 'b'}, Gamma=set(G0), delta=delta, q0='p', F=set(F0), epsilon=eps)
            try:
                Interp(ctx).call(f, [P])
            except Raised as ex:
                bad = 'the construction raises {}'.format(ex.name)
                break
            Q1, G1, F1, d1, q01 = P._f['Q'], P._f['Gamma'], P._f['F'], P._f['delta'], P._f['q0']
            newQ, newG = set(Q1) - Q0, set(G1) - G0
            trans = {(p, a, u0, q, v) for (p, a, u0), tg in d1.items() for (q, v) in tg}
            oldt = {(p, a, u0, q, v) for (p, a, u0), tg in old.items() for (q, v) in tg}
            if len(newG) != 1 or not G0 <= set(G1):
                bad = 'the stack alphabet of the result is {} (one new bottom marker is expected next to the old symbols {})'.format(sorted(G1), sorted(G0))
                break
            b = next(iter(newG))
            if len(newQ) != 3 or not Q0 <= set(Q1):
                bad = 'the result has the new states {} (a new initial, a drain and a new accepting state are expected)'.format(sorted(newQ))
                break
            if q01 not in newQ:
                bad = 'the initial state of the result is the old state {}'.format(q01)
                break
            if len(F1) != 1 or next(iter(F1)) not in newQ or next(iter(F1)) == q01:
                bad = 'the accepting states of the result are {} (exactly one new accepting state is expected)'.format(sorted(F1))
                break
            qa = next(iter(F1))
            qd = next(iter(newQ - {q01, qa}))
            want = set(oldt) | {(q01, eps, eps, 'p', b)}
            for q in F0 | {qd}:
                for X in G0:
                    want.add((q, eps, X, qd, eps))
                want.add((q, eps, b, qa, eps))
            if trans != want:
                missing, extra = sorted(want - trans), sorted(trans - want)
                show = lambda t: '({}, {}, {}) -> ({}, {})'.format(t[0], t[1] or 'eps', t[2] or 'eps', t[3], t[4] or 'eps')
                if missing:
                    bad = 'the transition {} is missing from the result: {}'.format(show(missing[0]), 'symbols left on the stack are not all popped, so words accepted with a non-empty stack are lost' if missing[0][3] == qd or missing[0][0] == qd else 'the empty-stack form is incomplete')
                else:
                    bad = 'the result contains the unexpected transition {}'.format(show(extra[0]))
                break
    except Unsupported as e:
        rep.note('{}: finite-model evaluation not applicable ({})'.format(f.short, e))
        return False
    if bad:
        rep.violates(rule, f, 'def ' + f.name, bad)
    else:
        rep.holds(rule, f, 'def ' + f.name, 'on the finite model the result has a new bottom marker, a new initial state that pushes it, a drain state and the old accepting states popping every old symbol into the drain state and the marker into the single new accepting state; nothing else is added')
    return True


def collections_defaultdict_set(d):
    import collections
    out = collections.defaultdict(set)
    out.update(d)
    return out
