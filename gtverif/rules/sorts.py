"""R-SORT -- the repository declares the sorts State, Symbol and Direction as NewTypes but never runs a type checker.
This rule is that check, restricted to what is certain: an expression whose every possible value carries ONE declared
sort is never used where a different declared sort is required:
  membership  x in S          (sort of x vs sort of the elements of S)
  equality    x == y
  set algebra S | T, S & T, S - T, S <= T
  keys        d[k1, k2]       against the key type of the annotated mapping, position by position
  arguments   f(a1, ..)       against the annotated parameter sorts
Anything whose sort is unknown, plain str or a union of two sorts is left alone (no verdict).  The sorts are the
repository's own annotations; nothing is frozen here."""
import ast

from ..astutil import u, walk_no_nested
from ..types import Typer, members, elem_type

RULE = 'R-SORT'

_typers = {}


def nominal_env(ctx, f):
    t = _typers.get(id(ctx.prog))
    if t is None:
        t = Typer(ctx.prog, nominal=True)
        _typers.clear()
        _typers[id(ctx.prog)] = t
    return t.env(f), t


def sort_of(t):
    """the single declared sort of a string-valued type, or None"""
    ms = members(t)
    if not ms:
        return None
    tags = set()
    for m in ms:
        if m[0] == 'str' and len(m) == 2:
            tags.add(m[1])
        else:
            return None
    return next(iter(tags)) if len(tags) == 1 else None


def elem_sort(t):
    ms = members(t)
    if not ms or not all(m[0] in ('set', 'frozenset', 'list', 'iter') for m in ms):
        return None
    return sort_of(elem_type(t))


def check_sorts(ctx, rep, funcs, rule=RULE):
    n = 0
    for f in funcs:
        try:
            env, typer = nominal_env(ctx, f)
        except Exception:
            continue

        parent = {}
        for n0 in ast.walk(f.node):
            for c0 in ast.iter_child_nodes(n0):
                parent[id(c0)] = n0

        def local_types(node):
            # comprehension variables are typed from their own generator, not from the function-wide union
            out = {}
            cur = node
            while id(cur) in parent:
                p0 = parent[id(cur)]
                if isinstance(p0, (ast.GeneratorExp, ast.ListComp, ast.SetComp, ast.DictComp)):
                    for g0 in p0.generators:
                        if isinstance(g0.target, ast.Name) and g0.target.id not in out:
                            try:
                                out[g0.target.id] = elem_type(env.type_of(g0.iter))
                            except Exception:
                                pass
                cur = p0
            return out

        cur_local = {}

        def ty(e):
            if isinstance(e, ast.Name) and e.id in cur_local and cur_local[e.id] is not None:
                return cur_local[e.id]
            try:
                return env.type_of(e)
            except Exception:
                return None

        for s in walk_no_nested(f.node):
            cur_local.clear()
            if isinstance(s, (ast.Compare, ast.BinOp)):
                cur_local.update(local_types(s))
            if isinstance(s, ast.Compare) and len(s.ops) == 1:
                a, b = s.left, s.comparators[0]
                op = s.ops[0]
                if isinstance(op, (ast.In, ast.NotIn)):
                    sa, tb = sort_of(ty(a)), ty(b)
                    if sa and sort_of(tb):
                        # the right-hand side is itself a name (a string), not a collection of names
                        n += 1
                        rep.violates(rule, f, s, '`{}` tests whether the {} {} occurs INSIDE the text of the {} {} (a substring test between two names), not whether it belongs to a collection: q1 is "in" q10 and in {{q1,q2}}'.format(u(s), sa, u(a), sort_of(tb), u(b)))
                        continue
                    sb = elem_sort(tb)
                    if sb is None and tb is not None and all(m[0] in ('dict', 'defaultdict') for m in members(tb)):
                        sb = sort_of(elem_type(tb))
                    if sa and sb:
                        n += 1
                        if sa != sb:
                            rep.violates(rule, f, s, 'membership test of a {} in a collection of {}s: {} -- the two sorts never meet, so the test is constantly false (or, if it is an assertion about freshness, demands more than the definition)'.format(sa, sb, u(s)))
                        else:
                            rep.holds(rule, f, s, 'membership within the sort {}'.format(sa), nontrivial=False)
                elif isinstance(op, (ast.Eq, ast.NotEq)):
                    sa, sb = sort_of(ty(a)), sort_of(ty(b))
                    if sa and sb:
                        n += 1
                        if sa != sb:
                            rep.violates(rule, f, s, 'a {} is compared with a {}: {}'.format(sa, sb, u(s)))
                        else:
                            rep.holds(rule, f, s, 'comparison within the sort {}'.format(sa), nontrivial=False)
                elif isinstance(op, (ast.LtE, ast.GtE, ast.Lt, ast.Gt)):
                    sa, sb = elem_sort(ty(a)), elem_sort(ty(b))
                    if sa and sb:
                        n += 1
                        if sa != sb:
                            rep.violates(rule, f, s, 'a set of {}s is compared by inclusion with a set of {}s: {}'.format(sa, sb, u(s)))
                        else:
                            rep.holds(rule, f, s, 'inclusion within the sort {}'.format(sa), nontrivial=False)
            elif isinstance(s, ast.BinOp) and isinstance(s.op, (ast.BitOr, ast.BitAnd, ast.Sub, ast.BitXor)):
                sa, sb = elem_sort(ty(s.left)), elem_sort(ty(s.right))
                if sa and sb:
                    n += 1
                    if sa != sb:
                        rep.violates(rule, f, s, 'set operation between a set of {}s and a set of {}s: {} -- states and symbols live in different name spaces, a condition on the mixed set constrains names that the definition leaves free'.format(sa, sb, u(s)))
                    else:
                        rep.holds(rule, f, s, 'set operation within the sort {}'.format(sa), nontrivial=False)
            elif isinstance(s, ast.Subscript) and isinstance(s.slice, ast.Tuple):
                tb = ty(s.value)
                ms = members(tb)
                if len(ms) == 1 and ms[0][0] in ('dict', 'defaultdict'):
                    kt = ms[0][1]
                    if kt is not None and kt[0] == 'tuple' and kt[1] and len(kt[1]) == len(s.slice.elts):
                        for i, (k, want) in enumerate(zip(s.slice.elts, kt[1])):
                            sk, sw = sort_of(ty(k)), sort_of(want)
                            if sk and sw:
                                n += 1
                                if sk != sw:
                                    rep.violates(rule, f, s, 'component {} of the key {} is a {} where the mapping {} is keyed by a {}'.format(i + 1, u(s.slice), sk, u(s.value), sw))
                                else:
                                    rep.holds(rule, f, s, 'key component {} has the sort {}'.format(i + 1, sk), nontrivial=False)
            elif isinstance(s, ast.Call) and isinstance(s.func, ast.Attribute) and s.func.attr in ('update', 'extend', 'union', 'intersection', 'difference', 'issubset', 'issuperset') and len(s.args) == 1 \
                    and sort_of(ty(s.args[0])):
                # a NAME handed to an operation that iterates its argument: the name is taken apart into characters
                n += 1
                rep.violates(rule, f, s, '`{}` hands the {} {} to {}(), which iterates it: the name is split into its characters (a symbol `10` becomes `1` and `0`); add() was meant'.format(u(s), sort_of(ty(s.args[0])), u(s.args[0]), s.func.attr))
            elif isinstance(s, ast.Call):
                r = ctx.resolve_call(f, s)
                g = None
                if r is not None and r.kind == 'func':
                    g = r.target
                elif r is not None and r.kind == 'class':
                    g = ctx.prog.find_method(r.target, '__init__')
                if g is None:
                    continue
                params = [p for p in g.pos_params if p.arg != 'self']
                if g.cls is not None and g.pos_params and g.pos_params[0].arg == 'self' and isinstance(s.func, ast.Attribute) is False and r.kind == 'func':
                    pass
                pairs = list(zip(params, s.args))
                for k in s.keywords:
                    for p in params:
                        if p.arg == k.arg:
                            pairs.append((p, k.value))
                for p, a in pairs:
                    if isinstance(a, ast.Starred) or p.annotation is None:
                        continue
                    want = typer.parse_annotation(g.module, g, p.annotation)
                    sw, sa = sort_of(want), sort_of(ty(a))
                    kind = 'value'
                    if not sw:
                        sw, sa, kind = elem_sort(want), elem_sort(ty(a)), 'set'
                    if sw and sa:
                        n += 1
                        if sw != sa:
                            rep.violates(rule, f, s, 'argument {} of {}() is a {} of sort {} where the parameter {} is declared {}'.format(u(a), g.name, kind, sa, p.arg, u(p.annotation)))
                        else:
                            rep.holds(rule, f, s, 'argument {} has the declared sort {}'.format(u(a), sw), nontrivial=False)
    return n


def check_grammar_symbol_sorts(ctx, rep, funcs, rule=RULE + '.cfg', equalities=True):
    """Variable and Terminal are str subclasses: `x in V` / `x in Sigma` compare NAMES, so a terminal called A is "in" a
    set of variables that contains the variable A (fresh variables are chosen fresh for V only).  A symbol that may be of
    the other class must be told apart by class (isinstance, is_variable(), is_unit_rule() ...) before such a test."""
    from ..astutil import expr_guard_atoms
    VAR, TER = 'gambatools.cfg.Variable', 'gambatools.cfg.Terminal'
    n = 0
    for f in funcs:
        try:
            env = ctx.env(f)
        except Exception:
            continue
        fx = None
        for s in walk_no_nested(f.node):
            if isinstance(s, ast.Compare) and len(s.ops) == 1 and isinstance(s.ops[0], (ast.Eq, ast.NotEq)):
                # the grammar operations of the library work on arbitrary grammars; the notebook checkers only see grammars
                # read by parse_simple_cfg, whose variables and terminals are spelled differently by construction
                if equalities and f.module.base in ('cfg_algorithms.py', 'cfg.py'):
                    n += _check_symbol_equality(ctx, rep, f, env, s, rule, VAR, TER)
                continue
            if not (isinstance(s, ast.Compare) and len(s.ops) == 1 and isinstance(s.ops[0], (ast.In, ast.NotIn))):
                continue
            a, b = s.left, s.comparators[0]
            try:
                ta, tb = env.type_of(a), env.type_of(b)
            except Exception:
                continue
            la = {m[1] for m in members(ta) if m[0] == 'cls'}
            if not la or not la <= {VAR, TER}:
                continue
            eb = {m[1] for m in members(elem_type(tb)) if m[0] == 'cls'} if tb is not None and all(m[0] in ('set', 'frozenset', 'list') for m in members(tb)) else set()
            if not eb and isinstance(b, ast.Name):
                # an untyped local set: its element class is what the function adds to it
                added = set()
                unknown_add = False
                for c in walk_no_nested(f.node):
                    if isinstance(c, ast.Call) and isinstance(c.func, ast.Attribute) and c.func.attr == 'add' and isinstance(c.func.value, ast.Name) and c.func.value.id == b.id and c.args:
                        try:
                            tt = env.type_of(c.args[0])
                        except Exception:
                            tt = None
                        cl = {m[1] for m in members(tt) if m[0] == 'cls'}
                        if len(cl) == 1 and len(members(tt)) == 1:
                            added |= cl
                        else:
                            unknown_add = True
                if added and not unknown_add:
                    eb = added
            if len(eb) != 1 or not eb <= {VAR, TER}:
                continue
            want = next(iter(eb))
            if la == {want}:
                n += 1
                rep.holds(rule, f, s, 'membership within one class of grammar symbols', nontrivial=False)
                continue
            # the left operand may be of the other class: is its class established on every path to this test?
            if fx is None:
                fx = ctx.facts(f)
            nid = fx.stmt_of_expr(s)
            atoms = (list(fx.guard_atoms(nid)) if nid is not None else []) + expr_guard_atoms(f.node, s)
            txt = u(a)
            cls_name = 'Variable' if want == VAR else 'Terminal'
            other_name = 'Terminal' if want == VAR else 'Variable'
            established = any((at[0] == 'isinstance' and at[3] is True and at[1] == txt and cls_name in str(at[2])) for at in atoms) \
                or (la == {VAR, TER} and any((at[0] == 'isinstance' and at[3] is False and at[1] == txt and other_name in str(at[2])) for at in atoms))
            if not established:
                # a predicate of the grammar classes that was tested: r.is_unit_rule() says isinstance(r.alternative.symbols[0], Variable)
                for at in atoms:
                    if at[0] == 'truthy' and at[3] is True and str(at[1]).endswith('()'):
                        for (etxt, kname) in _predicate_facts(ctx, at[1]):
                            if etxt.replace(' ', '') == txt.replace(' ', '') and kname == cls_name:
                                established = True
            if not established and isinstance(a, ast.Name) and nid is not None:
                # flow-sensitive: the binding of the name that reaches this test (the typer joins all bindings of a name)
                cfg0 = fx.cfg
                binds = [st0 for st0 in walk_no_nested(f.node) if isinstance(st0, (ast.Assign, ast.AnnAssign)) and any(isinstance(t0, ast.Name) and t0.id == a.id for t0 in (st0.targets if isinstance(st0, ast.Assign) else [st0.target]))]
                doms = [st0 for st0 in binds if cfg0.dominates(cfg0.n_of(st0), nid) and cfg0.n_of(st0) != nid]
                if doms:
                    inner = doms[0]
                    for st0 in doms[1:]:
                        if cfg0.dominates(cfg0.n_of(inner), cfg0.n_of(st0)):
                            inner = st0
                    others = [st0 for st0 in binds if st0 is not inner and cfg0.n_of(st0) in cfg0.reachable(cfg0.n_of(inner)) and nid in cfg0.reachable(cfg0.n_of(st0))
                              and not cfg0.dominates(cfg0.n_of(st0), cfg0.n_of(inner))]
                    loop_targets = [l0 for l0 in walk_no_nested(f.node) if isinstance(l0, ast.For) and any(isinstance(x0, ast.Name) and x0.id == a.id for x0 in ast.walk(l0.target))]
                    if not others and not loop_targets and inner.value is not None:
                        try:
                            tv = env.type_of(inner.value)
                        except Exception:
                            tv = None
                        cv = {m[1] for m in members(tv) if m[0] == 'cls'}
                        if cv == {want} and len(members(tv)) == 1:
                            established = True
            n += 1
            if established:
                rep.holds(rule, f, s, 'the class of {} is established before the membership test'.format(txt))
            else:
                other = 'Terminal' if want == VAR else 'Variable'
                rep.violates(rule, f, s, '`{}`: {} may be a {} here, but the test compares names with a set of {}s -- a {} whose name equals that of a {} (e.g. the terminal A and a fresh variable A, chosen fresh for V only) passes the test, so it is treated as a {}'.format(
                    u(s), txt, other, cls_name, other.lower(), cls_name.lower(), cls_name.lower()))
    return n


def _check_symbol_equality(ctx, rep, f, env, s, rule, VAR, TER):
    """`x == y` / `xs == [y]` between grammar symbols: equality of str subclasses compares NAMES.  When one side is known
    to be of one class and the other side may be of the other class (a symbol of a right-hand side), a terminal spelled
    like the variable compares equal to it; the class of that side must be established first."""
    from ..astutil import expr_guard_atoms

    def classes(e):
        """(classes of the value, is_list)"""
        try:
            t = env.type_of(e)
        except Exception:
            t = None
        if isinstance(e, ast.List):
            cs = set()
            for x in e.elts:
                c0, l0 = classes(x)
                if l0 or not c0:
                    return set(), True
                cs |= c0
            return cs, True
        ms = members(t) if t is not None else []
        if ms and all(m[0] == 'cls' for m in ms):
            return {m[1] for m in ms}, False
        if ms and all(m[0] in ('list', 'tuple') for m in ms):
            et = elem_type(t)
            es = members(et) if et is not None else []
            if es and all(m[0] == 'cls' for m in es):
                return {m[1] for m in es}, True
        return set(), False
    a, b = s.left, s.comparators[0]
    (ca, la), (cb, lb) = classes(a), classes(b)
    if not ca or not cb or la != lb or not (ca <= {VAR, TER}) or not (cb <= {VAR, TER}):
        return 0
    if ca == cb and len(ca) == 1:
        rep.holds(rule, f, s, 'equality within one class of grammar symbols', nontrivial=False)
        return 1
    if len(ca) == 1 and len(cb) == 1:
        # Variable == Terminal: always a comparison of names across classes
        rep.violates(rule, f, s, '`{}` compares a {} with a {} by name: the two are of different classes, equal spelling does not make them the same symbol'.format(
            u(s), next(iter(ca)).split('.')[-1], next(iter(cb)).split('.')[-1]))
        return 1
    if len(ca) == 2 and len(cb) == 2:
        return 0          # symbol against symbol: no class is claimed
    mixed, single, want = (a, b, cb) if len(ca) == 2 else (b, a, ca)
    want = next(iter(want))
    cls_name = want.split('.')[-1]
    if cls_name != 'Variable':
        return 0          # a symbol against a fixed terminal (epsilon): no variable is spelled like it
    other_name = 'Terminal' if cls_name == 'Variable' else 'Variable'
    fx = ctx.facts(f)
    nid = fx.stmt_of_expr(s)
    atoms = (list(fx.guard_atoms(nid)) if nid is not None else []) + expr_guard_atoms(f.node, s)
    txt = u(mixed)
    established = any(at[0] == 'isinstance' and ((at[3] is True and cls_name in str(at[2])) or (at[3] is False and other_name in str(at[2]))) and (at[1] == txt or at[1].startswith(txt + '[')) for at in atoms)
    if established:
        rep.holds(rule, f, s, 'the class of {} is established before the comparison'.format(txt))
    else:
        rep.violates(rule, f, s, '`{}`: {} may {} a {} here, but it is compared by name with {} {}: a {} spelled like the {} compares equal to it and is treated as the {} (e.g. the rule A -> \'A\' with the terminal A is taken for the useless rule A -> A)'.format(
            u(s), txt, 'contain' if la else 'be', other_name, 'a list of' if la else 'the', cls_name + ('s' if la else ''), other_name.lower(), cls_name.lower(), cls_name.lower()))
    return 1


def _predicate_facts(ctx, call_text, depth=0):
    """[(expression text, class name)] that hold when the parameterless predicate method call `X.m()` is true: the isinstance
    conjuncts of the method's single return expression with self replaced by X, following predicates it delegates to"""
    try:
        e = ast.parse(call_text, mode='eval').body
    except SyntaxError:
        return []
    if not (isinstance(e, ast.Call) and isinstance(e.func, ast.Attribute) and not e.args and not e.keywords) or depth > 2:
        return []
    recv, mname = u(e.func.value), e.func.attr
    out = []
    for c in ctx.prog.classes.values():
        if c.module.base != 'cfg.py' or mname not in c.methods:
            continue
        m = c.methods[mname]
        body = [b for b in m.node.body if not (isinstance(b, ast.Expr) and isinstance(b.value, ast.Constant))]
        if len(body) != 1 or not isinstance(body[0], ast.Return) or body[0].value is None:
            continue
        conj = body[0].value.values if isinstance(body[0].value, ast.BoolOp) and isinstance(body[0].value.op, ast.And) else [body[0].value]
        for x in conj:
            if isinstance(x, ast.Call) and isinstance(x.func, ast.Name) and x.func.id == 'isinstance' and len(x.args) == 2 and isinstance(x.args[1], ast.Name):
                out.append((u(x.args[0]).replace('self', recv, 1), x.args[1].id))
            elif isinstance(x, ast.Call) and isinstance(x.func, ast.Attribute) and not x.args:
                out += _predicate_facts(ctx, u(x).replace('self', recv, 1), depth + 1)
    return out
