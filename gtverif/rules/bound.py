"""R-BOUND -- enumeration bound discipline, decided by a small abstract interpreter over *lengths*.

For concrete bounds n = 0..4 the enumerator's body is interpreted abstractly: strings and sequences are represented by
the set of lengths they may have, collections by the abstraction of their elements; everything else is Top.  The set of
lengths that may reach the result must be exactly {0..n}: a longer length breaks "nothing longer than n", a missing level
means words of that length can never be enumerated.  Constructs outside the fragment make the instance UNDECIDED."""
import ast

from ..astutil import u, names_in, walk_no_nested
from ..model import norm

RULE = 'R-BOUND'
TOP = ('top',)
NONE = ('none',)
MAXLEN = 12


class Outside(Exception):
    pass


def seq(*lens):
    return ('seq', frozenset(lens))


def coll(elem=None):
    return ('coll', elem)


def join(a, b):
    if a is None:
        return b
    if b is None:
        return a
    if a == b:
        return a
    if a[0] == 'seq' and b[0] == 'seq':
        if a[1] is None or b[1] is None:
            return ('seq', None)
        return ('seq', a[1] | b[1])
    if a[0] == 'coll' and b[0] == 'coll':
        return ('coll', join(a[1], b[1]))
    if a[0] == 'map' and b[0] == 'map':
        return ('map', join(a[1], b[1]))
    if a[0] == 'tup' and b[0] == 'tup' and len(a[1]) == len(b[1]):
        return ('tup', tuple(join(x, y) for x, y in zip(a[1], b[1])))
    if a[0] == 'int' and b[0] == 'int':
        return TOP
    return TOP


def lens_of(v):
    """set of string lengths that may occur in v (None = unknown)"""
    if v is None:
        return frozenset()
    if v[0] == 'seq':
        return v[1]
    if v[0] in ('coll', 'map'):
        return lens_of(v[1])
    if v[0] == 'tup':
        out = frozenset()
        for x in v[1]:
            l = lens_of(x)
            if l is None:
                return None
            out |= l
        return out
    return frozenset()


class Interp:
    def __init__(self, ctx, f, hypothesis=None, force_branch=None):
        self.ctx = ctx
        self.root = f
        self.hyp = hypothesis            # function qualname whose recursive calls use the induction hypothesis
        self.force = force_branch        # class name forced in the top-level isinstance chain
        self.depth = 0
        self.notes = []

    # -- driver ---------------------------------------------------------------------------------------------------------
    def call(self, f, args):
        self.depth += 1
        if self.depth > 40:
            raise Outside('recursion too deep')
        env = {}
        for p, a in zip(f.pos_params, args):
            env[p.arg] = a
        for p in f.pos_params[len(args):]:
            d = f.defaults.get(p.arg)
            env[p.arg] = self.ev(d, {}, f) if d is not None else TOP
        self.ret = getattr(self, 'ret', None)
        saved = self.ret
        self.ret = None
        self.run(f.node.body, env, f)
        out = self.ret if self.ret is not None else NONE
        self.ret = saved
        self.depth -= 1
        return out

    def run(self, stmts, env, f):
        """returns False when the block certainly returned"""
        for s in stmts:
            if isinstance(s, (ast.FunctionDef, ast.Import, ast.ImportFrom, ast.Pass, ast.Assert)):
                continue
            if isinstance(s, ast.Return):
                v = self.ev(s.value, env, f) if s.value is not None else NONE
                self.ret = join(self.ret, v)
                return False
            if isinstance(s, ast.Assign) or (isinstance(s, ast.AnnAssign) and s.value is not None):
                v = self.ev(s.value, env, f)
                for t in (s.targets if isinstance(s, ast.Assign) else [s.target]):
                    self.assign(t, v, env, f)
                continue
            if isinstance(s, ast.AugAssign):
                cur = self.ev(s.target, env, f)
                v = self.ev(s.value, env, f)
                if isinstance(s.op, (ast.BitOr,)):
                    new = join(cur, v)
                elif isinstance(s.op, ast.Add):
                    new = self.add(cur, v)
                else:
                    new = TOP
                self.assign(s.target, new, env, f, aug=True)
                continue
            if isinstance(s, ast.Expr):
                self.ev(s.value, env, f)
                continue
            if isinstance(s, ast.If):
                c = self.cond(s.test, env, f)
                if c is True:
                    if not self.run(s.body, self.refine(s.test, True, env, f), f):
                        return False
                elif c is False:
                    if not self.run(s.orelse, self.refine(s.test, False, env, f), f):
                        return False
                else:
                    e1 = self.refine(s.test, True, dict(env), f)
                    e2 = self.refine(s.test, False, dict(env), f)
                    r1 = self.run(s.body, e1, f)
                    r2 = self.run(s.orelse, e2, f)
                    if not r1 and not r2:
                        return False
                    live = [e for e, r in ((e1, r1), (e2, r2)) if r]
                    merged = live[0]
                    for other in live[1:]:
                        for k in set(merged) | set(other):
                            if k.startswith('#'):
                                continue
                            merged[k] = join(merged.get(k), other.get(k)) if k in merged and k in other else (merged.get(k) or other.get(k))
                    for k in [k for k in merged if k.startswith('#')]:
                        del merged[k]
                    env.clear()
                    env.update(merged)
                continue
            if isinstance(s, ast.For):
                it = self.ev(s.iter, env, f)
                if it[0] == 'range':
                    for k in it[1]:
                        self.assign(s.target, ('int', k), env, f)
                        if not self.run(s.body, env, f):
                            return False
                    continue
                el = self.elem(it)
                if el is None and it[0] in ('coll', 'map', 'items'):
                    continue        # empty collection: body not executed
                # the body may run any number of times: run it until the environment is stable
                for _ in range(MAXLEN + 3):
                    before = repr(sorted((k, repr(v)) for k, v in env.items()))
                    self.assign(s.target, el if el is not None else TOP, env, f)
                    snapshot = dict(env)
                    self.run(s.body, env, f)
                    for k in set(snapshot) | set(env):
                        if k in snapshot and k in env:
                            env[k] = join(snapshot[k], env[k])
                    if repr(sorted((k, repr(v)) for k, v in env.items())) == before:
                        break
                continue
            raise Outside('statement ' + type(s).__name__)
        return True

    # -- helpers -------------------------------------------------------------------------------------------------------
    def elem(self, v):
        if v[0] == 'coll':
            return v[1]
        if v[0] == 'map':
            return TOP          # iterating a dict yields keys
        if v[0] == 'seq':
            return seq(1)
        if v[0] == 'items':
            return ('tup', (TOP, v[1])) if v[1] is not None else None
        return TOP

    def add(self, a, b):
        if a[0] == 'int' and b[0] == 'int':
            return ('int', a[1] + b[1])
        if a[0] == 'seq' and b[0] == 'seq':
            if a[1] is None or b[1] is None:
                return ('seq', None)
            return ('seq', frozenset(x + y for x in a[1] for y in b[1] if x + y <= MAXLEN + 4))
        if a[0] == 'coll' and b[0] == 'coll':
            return join(a, b)
        return TOP

    def assign(self, t, v, env, f, aug=False):
        if isinstance(t, ast.Name):
            env[t.id] = v
        elif isinstance(t, (ast.Tuple, ast.List)):
            if v[0] == 'tup' and len(v[1]) == len(t.elts):
                for x, y in zip(t.elts, v[1]):
                    self.assign(x, y, env, f)
            else:
                for x in t.elts:
                    self.assign(x, TOP, env, f)
        elif isinstance(t, ast.Subscript) and isinstance(t.value, ast.Name):
            m = env.get(t.value.id, TOP)
            if m[0] == 'map':
                env[t.value.id] = ('map', join(m[1], v) if not aug else join(m[1], v))
        # attribute stores are irrelevant for lengths

    def refine(self, test, pos, env, f):
        """len(E) == c refinements, keyed by the text of E"""
        if isinstance(test, ast.Compare) and len(test.ops) == 1 and isinstance(test.ops[0], ast.Eq) and pos:
            l, r = test.left, test.comparators[0]
            if isinstance(l, ast.Call) and isinstance(l.func, ast.Name) and l.func.id == 'len' and isinstance(r, ast.Constant) and isinstance(r.value, int):
                env = dict(env)
                env['#' + u(l.args[0])] = seq(r.value)
        return env

    def cond(self, test, env, f):
        try:
            v = self.ev(test, env, f)
        except Outside:
            return None
        if v[0] == 'bool':
            return v[1]
        if v[0] == 'int':
            return v[1] != 0
        return None

    # -- expressions -----------------------------------------------------------------------------------------------------
    def ev(self, e, env, f):
        if e is None:
            return NONE
        key = '#' + u(e)
        if key in env:
            return env[key]
        if isinstance(e, ast.Constant):
            if isinstance(e.value, bool):
                return ('bool', e.value)
            if isinstance(e.value, int):
                return ('int', e.value)
            if isinstance(e.value, str):
                return seq(len(e.value))
            return NONE
        if isinstance(e, ast.Name):
            if e.id in env:
                return env[e.id]
            return TOP
        if isinstance(e, ast.Attribute):
            if e.attr == 'Sigma':
                return coll(seq(1))
            if e.attr in ('S', 'variable', 'symbol', 'epsilon', 'blank'):
                return seq(1)
            if e.attr == 'symbols':
                return ('seq', None)
            if e.attr in ('F', 'Q', 'R', 'V', 'Gamma'):
                return coll(TOP)
            return TOP
        if isinstance(e, ast.Tuple):
            return ('tup', tuple(self.ev(x, env, f) for x in e.elts))
        if isinstance(e, ast.Set):
            out = None
            for x in e.elts:
                out = join(out, self.ev(x, env, f))
            return coll(out)
        if isinstance(e, ast.Dict):
            out = None
            for x in e.values:
                out = join(out, self.ev(x, env, f))
            return ('map', out)
        if isinstance(e, ast.DictComp):
            inner = self.comp(ast.ListComp(elt=e.value, generators=e.generators), env, f)
            return ('map', inner[1])
        if isinstance(e, ast.List):
            vals = [self.ev(x, env, f) for x in e.elts]
            if self._is_term_literal(e, f):
                return seq(len(vals))
            out = None
            for v in vals:
                out = join(out, v)
            return coll(out)
        if isinstance(e, (ast.ListComp, ast.SetComp, ast.GeneratorExp)):
            return self.comp(e, env, f)
        if isinstance(e, ast.BinOp):
            a, b = self.ev(e.left, env, f), self.ev(e.right, env, f)
            if isinstance(e.op, ast.Add):
                return self.add(a, b)
            if isinstance(e.op, ast.Sub) and a[0] == 'int' and b[0] == 'int':
                return ('int', a[1] - b[1])
            if isinstance(e.op, ast.BitOr):
                return join(a, b)
            if isinstance(e.op, (ast.BitAnd, ast.Sub)) and a[0] == 'coll':
                return a
            return TOP
        if isinstance(e, ast.Compare) and len(e.ops) == 1:
            a, b = self.ev(e.left, env, f), self.ev(e.comparators[0], env, f)
            if a[0] == 'int' and b[0] == 'int':
                op = type(e.ops[0])
                r = {ast.Lt: a[1] < b[1], ast.LtE: a[1] <= b[1], ast.Gt: a[1] > b[1], ast.GtE: a[1] >= b[1], ast.Eq: a[1] == b[1], ast.NotEq: a[1] != b[1]}.get(op)
                if r is not None:
                    return ('bool', r)
            return ('bool', None)
        if isinstance(e, ast.BoolOp):
            vals = [self.cond(v, env, f) for v in e.values]
            if isinstance(e.op, ast.And):
                if any(v is False for v in vals):
                    return ('bool', False)
                return ('bool', True) if all(v is True for v in vals) else ('bool', None)
            if any(v is True for v in vals):
                return ('bool', True)
            return ('bool', False) if all(v is False for v in vals) else ('bool', None)
        if isinstance(e, ast.UnaryOp) and isinstance(e.op, ast.Not):
            c = self.cond(e.operand, env, f)
            return ('bool', None if c is None else not c)
        if isinstance(e, ast.IfExp):
            c = self.cond(e.test, env, f)
            if c is True:
                return self.ev(e.body, env, f)
            if c is False:
                return self.ev(e.orelse, env, f)
            return join(self.ev(e.body, env, f), self.ev(e.orelse, env, f))
        if isinstance(e, ast.Subscript):
            base = self.ev(e.value, env, f)
            if isinstance(e.slice, ast.Slice):
                return self.slice(base, e.slice, env, f)
            if base[0] == 'map':
                return base[1] if base[1] is not None else coll(None)
            if base[0] == 'seq':
                return seq(1)
            if base[0] == 'tup':
                i = self.ev(e.slice, env, f)
                if i[0] == 'int' and -len(base[1]) <= i[1] < len(base[1]):
                    return base[1][i[1]]
            if base[0] == 'coll':
                return base[1] if base[1] is not None else TOP
            return TOP
        if isinstance(e, ast.Lambda):
            return ('lambda', e)
        if isinstance(e, ast.Starred):
            return self.ev(e.value, env, f)
        if isinstance(e, ast.JoinedStr):
            return ('seq', None)
        if isinstance(e, ast.Call):
            return self.evcall(e, env, f)
        return TOP

    def _is_term_literal(self, e, f):
        t = self.ctx.env(f).type_of(e)
        if t is None or t[0] != 'list':
            return False
        et = t[1]
        if et is None:
            return False
        ms = [et] if et[0] != 'union' else list(et[1])
        return all(m[0] == 'cls' and m[1].split('.')[-1] in ('Variable', 'Terminal', 'Symbol') for m in ms)

    def slice(self, base, sl, env, f):
        if base[0] != 'seq' or base[1] is None:
            return base if base[0] == 'seq' else TOP
        lo = self.ev(sl.lower, env, f) if sl.lower is not None else ('int', 0)
        hi = self.ev(sl.upper, env, f) if sl.upper is not None else None
        out = set()
        for n in base[1]:
            idx = list(range(n))
            if lo[0] != 'int' or (hi is not None and hi[0] != 'int'):
                return ('seq', None)
            out.add(len(idx[lo[1]:(hi[1] if hi is not None else None)]))
        return ('seq', frozenset(out))

    def comp(self, e, env, f):
        results = [None]

        def rec(i, env2):
            if i == len(e.generators):
                results[0] = join(results[0], self.ev(e.elt, env2, f))
                return
            g = e.generators[i]
            it = self.ev(g.iter, env2, f)
            if it[0] == 'range':
                for k in it[1]:
                    env3 = dict(env2)
                    self.assign(g.target, ('int', k), env3, f)
                    if all(self.cond(c, env3, f) is not False for c in g.ifs):
                        rec(i + 1, env3)
                return
            el = self.elem(it)
            if el is None and it[0] in ('coll', 'map', 'items'):
                return
            # split sequences of several possible lengths so that arithmetic on the length stays exact
            variants = [el if el is not None else TOP]
            if el is not None and el[0] == 'seq' and el[1] is not None and len(el[1]) > 1:
                variants = [seq(n) for n in sorted(el[1])]
            for v in variants:
                env3 = dict(env2)
                self.assign(g.target, v, env3, f)
                if all(self.cond(c, env3, f) is not False for c in g.ifs):
                    rec(i + 1, env3)
        rec(0, env)
        return coll(results[0])

    def evcall(self, e, env, f):
        fn = e.func
        # method calls
        if isinstance(fn, ast.Attribute):
            name = fn.attr
            inner = fn.value
            if name in ('add', 'append', 'update', 'extend') and e.args and isinstance(inner, ast.Call) and isinstance(inner.func, ast.Attribute) \
                    and inner.func.attr == 'setdefault' and isinstance(inner.func.value, ast.Name) and len(inner.args) == 2:
                # W1.setdefault(r1, set()).update(words): the entry of the map (created with the default when absent) grows
                m = env.get(inner.func.value.id, TOP)
                if m[0] == 'map':
                    d = self.ev(inner.args[1], env, f)
                    v = self.ev(e.args[0], env, f)
                    if name in ('add', 'append'):
                        v = coll(v)
                    if v[0] != 'coll' or d[0] != 'coll':
                        raise Outside('{} of a map entry with an unrecognised argument: {}'.format(name, u(e)))
                    env[inner.func.value.id] = ('map', join(join(m[1], d), v))
                    return NONE
            if name == 'setdefault' and isinstance(inner, ast.Name) and len(e.args) == 2 and env.get(inner.id, TOP)[0] == 'map':
                m = env[inner.id]
                d = self.ev(e.args[1], env, f)
                env[inner.id] = ('map', join(m[1], d))
                return join(m[1], d)
            if name in ('add', 'append') and e.args:
                v = self.ev(e.args[0], env, f)
                tgt = fn.value
                if isinstance(tgt, ast.Name):
                    cur = env.get(tgt.id, TOP)
                    if cur[0] == 'coll':
                        env[tgt.id] = coll(join(cur[1], v))
                elif isinstance(tgt, ast.Subscript) and isinstance(tgt.value, ast.Name):
                    m = env.get(tgt.value.id, TOP)
                    if m[0] == 'map':
                        env[tgt.value.id] = ('map', join(m[1], coll(v)))
                return NONE
            if name in ('update', 'extend') and e.args:
                v = self.ev(e.args[0], env, f)
                if isinstance(fn.value, ast.Name):
                    cur = env.get(fn.value.id, TOP)
                    if cur[0] == 'coll' and v[0] == 'coll':
                        env[fn.value.id] = join(cur, v)
                    elif cur[0] in ('coll', 'map'):
                        raise Outside('{} of a tracked collection with an unrecognised argument: {}'.format(name, u(e)))
                elif isinstance(fn.value, ast.Subscript) and isinstance(fn.value.value, ast.Name):
                    # W1[r1].update(words): the entry of the map grows
                    m = env.get(fn.value.value.id, TOP)
                    if m[0] == 'map':
                        if v[0] != 'coll':
                            raise Outside('{} of a map entry with an unrecognised argument: {}'.format(name, u(e)))
                        env[fn.value.value.id] = ('map', join(m[1], v))
                return NONE
            if name in ('setdefault', 'insert', '__setitem__', '__ior__') and isinstance(fn.value, (ast.Name, ast.Subscript)):
                base = fn.value if isinstance(fn.value, ast.Name) else fn.value.value
                if isinstance(base, ast.Name) and env.get(base.id, TOP)[0] in ('coll', 'map'):
                    raise Outside('mutation of a tracked collection outside the fragment: ' + u(e))
            if name == 'union':
                out = self.ev(fn.value, env, f)
                for a in e.args:
                    v = self.ev(a, env, f)
                    if isinstance(a, ast.Starred):
                        v = v[1] if v[0] == 'coll' and v[1] is not None else (coll(None) if v[0] == 'coll' else TOP)
                    out = join(out, v)
                return out
            if name == 'join' and e.args:
                v = self.ev(e.args[0], env, f)
                sep = self.ev(fn.value, env, f)
                if v[0] == 'ptuple' and sep == seq(0):
                    return seq(v[1])
                if v[0] == 'seq' and sep == seq(0):
                    return v
                return ('seq', None)
            if name == 'items':
                v = self.ev(fn.value, env, f)
                if v[0] == 'map':
                    return ('items', v[1])
                return TOP
            if name in ('copy',):
                return self.ev(fn.value, env, f)
            if name == 'sort':
                return NONE
            if name in ('is_chomsky', 'isdisjoint', 'startswith', 'endswith'):
                return ('bool', None)
            if name in ('keys',):
                return coll(TOP)
            if name in ('values',):
                v = self.ev(fn.value, env, f)
                return coll(v[1]) if v[0] == 'map' else TOP
            if name == 'get' and e.args:
                v = self.ev(fn.value, env, f)
                if v[0] == 'map':
                    d = self.ev(e.args[1], env, f) if len(e.args) > 1 else NONE
                    return join(v[1], d) if v[1] is not None else d
            # a method of a tracked collection that the interpreter does not model: give up rather than skip it (a skipped
            # growth would "prove" that a level can never be produced)
            base = fn.value.value if isinstance(fn.value, ast.Subscript) else fn.value
            if isinstance(base, ast.Name) and env.get(base.id, TOP)[0] in ('coll', 'map') and name not in (
                    'sort', 'reverse', 'index', 'count', 'issubset', 'issuperset', 'intersection', 'difference', 'get', 'values', 'keys'):
                raise Outside('method {} of the tracked collection {}'.format(name, base.id))
        ref = self.ctx.resolve_call(f, e)
        cname = self.ctx.callee_name(f, e)
        args = [self.ev(a, env, f) for a in e.args]
        if ref is not None and ref.kind == 'func':
            g = ref.target
            if self.hyp is not None and g.qualname == self.hyp and len(args) >= 2:
                m = args[1]
                if m[0] != 'int':
                    raise Outside('recursive budget is not a concrete integer')
                if m[1] < 0:
                    self.notes.append('recursive call with negative budget {}'.format(m[1]))
                    return coll(None)
                return coll(seq(*range(0, m[1] + 1)))
            if g.name in ('cfg_to_chomsky',):
                return TOP
            if g.name.endswith('_accepts_word') or g.name in ('pda_do_transition', 'pda_epsilon_closure', '_nfa_cache', 'epsilon_closure'):
                return TOP if not g.name.endswith('_accepts_word') else ('bool', None)
            top = g
            while top.parent is not None:
                top = top.parent
            if g.module is self.root.module or g.name in ('words_of_length_n', 'concatenate', 'concatenation'):
                if g.parent is not None:
                    # closure: nested helpers see the enclosing environment
                    saved_ret = getattr(self, 'ret', None)
                    self.ret = None
                    env2 = dict(env)
                    for p, a in zip(g.pos_params, args):
                        env2[p.arg] = a
                    self.depth += 1
                    if self.depth > 60:
                        raise Outside('recursion too deep')
                    self.run(g.node.body, env2, g)
                    self.depth -= 1
                    out = self.ret if self.ret is not None else NONE
                    self.ret = saved_ret
                    return out
                return self.call(g, args)
            return TOP
        if ref is not None and ref.kind == 'class':
            if ref.target.name in ('Variable', 'Terminal', 'Symbol', 'State'):
                return seq(1) if args and args[0][0] == 'seq' else seq(1)
            if ref.target.name in ('PDAState', 'Rule', 'Alternative'):
                return TOP
            return TOP
        if cname in ('set', 'list', 'sorted', 'frozenset', 'tuple'):
            if not args:
                return coll(None)
            a = args[0]
            if a[0] in ('coll',):
                return a
            if a[0] == 'seq':
                return coll(seq(1)) if cname != 'list' else a
            if a[0] == 'items':
                return coll(('tup', (TOP, a[1]))) if a[1] is not None else coll(None)
            return coll(TOP) if a[0] != 'top' else TOP
        if cname == 'len' and args:
            a = args[0]
            if a[0] == 'seq' and a[1] is not None and len(a[1]) == 1:
                return ('int', next(iter(a[1])))
            return TOP
        if cname == 'range':
            if all(a[0] == 'int' for a in args):
                return ('range', range(*[a[1] for a in args]))
            raise Outside('range with a non-concrete bound: ' + u(e))
        if cname == 'collections.defaultdict':
            return ('map', None)
        if cname == 'dict':
            return ('map', None)
        if cname == 'itertools.product':
            rep = [k for k in e.keywords if k.arg == 'repeat']
            if rep:
                r = self.ev(rep[0].value, env, f)
                if r[0] != 'int':
                    raise Outside('product repeat not concrete')
                return coll(('ptuple', r[1]))
            return coll(('tup', tuple(self.elem(a) if self.elem(a) is not None else TOP for a in args)))
        if cname == 'itertools.groupby' and args:
            el = self.elem(args[0])
            return coll(('tup', (el if el is not None else TOP, TOP)))
        if cname in ('isinstance',):
            if self.force is not None and len(e.args) == 2:
                k = e.args[1]
                names = [u(x) for x in (k.elts if isinstance(k, ast.Tuple) else [k])]
                return ('bool', self.force in [n.split('.')[-1] for n in names])
            return ('bool', None)
        if cname in ('print', 'log'):
            return NONE
        if cname in ('all', 'any'):
            return ('bool', None)
        return TOP


# ---- checks ----------------------------------------------------------------------------------------------------------------

def check_enumerator(ctx, rep, f, n_max=4):
    """lengths that may reach the result of f(X, n) are exactly 0..n"""
    bad = False
    try:
        for n in range(0, n_max + 1):
            it = Interp(ctx, f)
            args = [TOP] + [('int', n)] + [TOP] * max(0, len(f.pos_params) - 2)
            # finite-language helper: first parameter is the alphabet
            if f.pos_params and f.pos_params[0].arg == 'Sigma':
                args[0] = coll(seq(1))
            res = it.call(f, args)
            ls = lens_of(res)
            if res[0] not in ('coll',):
                rep.undecided(RULE, f, 'def ' + f.name, 'result is not recognised as a set of words (abstract value {})'.format(res[0]))
                return
            if ls is None or res[1] == TOP:
                rep.undecided(RULE, f, 'def ' + f.name, 'a word of unknown length reaches the result for n = {}'.format(n))
                return
            want = frozenset(range(0, n + 1))
            if ls - want:
                bad = True
                rep.violates(RULE, f, 'n = {}'.format(n), 'for n = {} words of length {} can reach the result (nothing may be longer than n)'.format(n, sorted(ls - want)))
                break
            if want - ls:
                bad = True
                rep.violates(RULE, f, 'n = {}'.format(n), 'for n = {} no word of length {} can ever reach the result: words of that length are missing from the enumeration'.format(n, sorted(want - ls)))
                break
    except Outside as e:
        rep.undecided(RULE, f, 'def ' + f.name, 'enumerator outside the length fragment: {}'.format(e))
        return
    if not bad:
        rep.holds(RULE, f, 'def ' + f.name, 'for n = 0..{} the lengths that can reach the result are exactly 0..n (abstract interpretation over word lengths)'.format(n_max))


REGEXP_EXPECT = {
    'Zero': lambda n: set(),
    'One': lambda n: {0},
    'Symbol': lambda n: {1} if n > 0 else set(),
    'Sum': lambda n: set(range(n + 1)),
    'Concat': lambda n: set(range(n + 1)),
    'Iteration': lambda n: set(range(n + 1)),
}


def check_regexp_enumerator(ctx, rep, f, n_max=4):
    """induction step per constructor: assuming f(r', m) yields lengths within 0..m for every sub-call, the branch for each
    constructor yields exactly the expected lengths for n = 0..n_max"""
    for K, expect in REGEXP_EXPECT.items():
        try:
            ok = True
            for n in range(0, n_max + 1):
                it = Interp(ctx, f, hypothesis=f.qualname, force_branch=K)
                res = it.call(f, [TOP, ('int', n)])
                ls = lens_of(res) if res[0] == 'coll' else None
                if ls is None:
                    rep.undecided(RULE + '.regexp', f, 'case ' + K, 'branch result not recognised for n = {}'.format(n))
                    ok = None
                    break
                want = frozenset(expect(n))
                if it.notes:
                    ok = False
                    rep.violates(RULE + '.regexp', f, 'case ' + K, 'for n = {}: {}'.format(n, it.notes[0]))
                    break
                if ls - want:
                    ok = False
                    rep.violates(RULE + '.regexp', f, 'case ' + K, 'for n = {} the {} case can yield words of length {} (budgets of the sub-calls exceed n)'.format(n, K, sorted(ls - want)))
                    break
                if want - ls:
                    ok = False
                    rep.violates(RULE + '.regexp', f, 'case ' + K, 'for n = {} the {} case can never yield words of length {} (budgets of the sub-calls do not add up to n, or a base case is missing)'.format(n, K, sorted(want - ls)))
                    break
            if ok:
                rep.holds(RULE + '.regexp', f, 'case ' + K, 'induction step for {}: with sub-results within their budgets the lengths are exactly {} for n = 0..{}'.format(K, 'the expected ones', n_max))
        except Outside as e:
            rep.undecided(RULE + '.regexp', f, 'case ' + K, 'branch outside the length fragment: {}'.format(e))
    # the star case recurses with a strictly smaller budget (k >= 1), so the induction is well-founded
    for c in walk_no_nested(f.node):
        if isinstance(c, (ast.ListComp, ast.GeneratorExp)) and len(c.generators) == 1:
            g = c.generators[0]
            selfcalls = [x for x in ast.walk(c.elt) if isinstance(x, ast.Call) and isinstance(x.func, ast.Name) and x.func.id == f.name and x.args and u(x.args[0]) == f.pos_params[0].arg]
            if selfcalls and isinstance(g.iter, ast.Call) and u(g.iter.func) == 'range':
                lo = g.iter.args[0] if len(g.iter.args) >= 2 else None
                if lo is not None and isinstance(lo, ast.Constant) and lo.value >= 1:
                    rep.holds(RULE + '.regexp', f, g.iter, 'the star case re-enters the same node only with a strictly smaller budget (k >= 1): well-founded')
                else:
                    rep.violates(RULE + '.regexp', f, g.iter, 'the star case re-enters the same node with an unchanged budget (k = 0): the recursion does not terminate')
