"""Small functions decided by exhaustive case analysis with the analyser's own finite-model evaluator (miniexec): the
function's syntax tree is interpreted over a handful of model objects chosen so that every branch decision of the function
occurs with both outcomes; nothing of the repository is imported or run.  When a body leaves the evaluator's fragment
the instance is UNDECIDED (never a violation)."""
import ast
import itertools

from ..abseval import Unsupported
from ..miniexec import Interp, Obj, Raised

RULE = 'R-MODEL'


def check_used_states(ctx, rep, f, rule=RULE + '.M10'):
    """Automaton.used_states: exactly the initial states, the final states and BOTH ends of every transition."""
    cases = 0
    try:
        for init, fin, trans in (({'i'}, {'f'}, [('p', 'a', 'q')]), (set(), set(), [('p', 'a', 'q'), ('q', 'b', 'r')]), ({'i'}, set(), []), ({'p'}, {'q'}, [('p', 'a', 'p'), ('s', 'b', 't')])):
            A = Obj('Automaton', initial_states=set(init), final_states=set(fin), transitions=list(trans), states=set(), items={})
            try:
                got = Interp(ctx).call(f, [A])
            except Raised as ex:
                if ex.name in ('TypeError', 'AttributeError'):
                    raise Unsupported('the evaluator met a {} it cannot attribute to the code'.format(ex.name))
                rep.violates(rule, f, 'def ' + f.name, 'raises {} on a small automaton'.format(ex.name))
                return
            want = set(init) | set(fin) | {x for (p, _, q) in trans for x in (p, q)}
            cases += 1
            if not isinstance(got, (set, frozenset)):
                raise Unsupported('result is not a set')
            if set(got) != want:
                rep.violates(rule, f, 'def ' + f.name, 'for the transitions {} with initial states {} and final states {} the used states are {} instead of {}: {} -- a state that only occurs there is not derived (or not checked against the declared states) when the states line is omitted'.format(
                    trans, sorted(init), sorted(fin), sorted(got), sorted(want), 'targets of transitions are missing' if any(q in want - set(got) for (_, _, q) in trans) else 'states are missing or invented'))
                return
            if set(A._f['initial_states']) != set(init) or set(A._f['final_states']) != set(fin):
                rep.violates(rule, f, 'def ' + f.name, 'collecting the used states changes the declared initial / final states of the automaton (the result is built in place on one of them)')
                return
    except (Unsupported, RecursionError) as e:
        rep.undecided(rule, f, 'def ' + f.name, 'outside the evaluator: {}'.format(e))
        return
    rep.holds(rule, f, 'def ' + f.name, 'on {} small automata the used states are the initial states, the final states and both ends of every transition'.format(cases))


def check_print_feedback(ctx, rep, f, rule='R-FEEDBACK.K11'):
    """print_feedback: OK is printed exactly when the list of messages is empty, and every message is printed -- whatever the
    messages say (the checkers' messages carry no uniform prefix)."""
    cases = 0
    try:
        for msgs in ([], ['Error: x'], ['The state q0 should be final'], ['Warning: y'], ['Error: x', 'z'], ['']):
            out = []

            def pr(interp, args, kwargs, out=out):
                out.append(' '.join(str(a) for a in args))
                return None
            try:
                Interp(ctx, stubs={'print': pr}).call(f, [list(msgs)])
            except Raised as ex:
                if ex.name in ('TypeError', 'AttributeError'):
                    raise Unsupported('the evaluator met a {} it cannot attribute to the code'.format(ex.name))
                rep.violates(rule, f, 'def ' + f.name, 'raises {} for the messages {}'.format(ex.name, msgs))
                return
            cases += 1
            said_ok = any(o.strip() == 'OK' for o in out)
            if said_ok != (len(msgs) == 0):
                rep.violates(rule, f, 'def ' + f.name, 'for the recorded messages {} the verdict OK is {}: OK must be printed exactly when nothing was recorded (several checkers record complaints without an "Error" prefix)'.format(
                    msgs, 'printed' if said_ok else 'not printed'))
                return
            if any(m not in out for m in msgs):
                rep.violates(rule, f, 'def ' + f.name, 'the recorded message {!r} is not printed'.format([m for m in msgs if m not in out][0]))
                return
    except (Unsupported, RecursionError) as e:
        rep.undecided(rule, f, 'def ' + f.name, 'outside the evaluator: {}'.format(e))
        return
    rep.holds(rule, f, 'def ' + f.name, 'on {} message lists OK is printed exactly for the empty one and every message is printed'.format(cases))


def check_dfa_run(ctx, rep, f, rule=RULE + '.M8'):
    """dfa_simulate_word: the rows are (q0, w), (delta(q0, w1), w[1:]), ... -- every row follows from the PREVIOUS row by the
    transition on the next unread symbol.  Three states that all move differently, all words up to length 3."""
    trans = {('p', 'a'): 'q', ('p', 'b'): 'r', ('q', 'a'): 'r', ('q', 'b'): 'p', ('r', 'a'): 'p', ('r', 'b'): 'r'}
    D = Obj('DFA', Q={'p', 'q', 'r'}, Sigma={'a', 'b'}, delta=dict(trans), q0='p', F={'r'})
    cases = 0
    try:
        for k in range(4):
            for w in itertools.product('ab', repeat=k):
                word = ''.join(w)
                try:
                    got = Interp(ctx).call(f, [D, word])
                except Raised as ex:
                    if ex.name in ('TypeError', 'AttributeError'):
                        raise Unsupported('the evaluator met a {} it cannot attribute to the code'.format(ex.name))
                    rep.violates(rule, f, 'def ' + f.name, 'raises {} for the word {!r}'.format(ex.name, word))
                    return
                want, q = [('p', word)], 'p'
                for i, a in enumerate(word):
                    q = trans[q, a]
                    want.append((q, word[i + 1:]))
                cases += 1
                if not isinstance(got, list):
                    raise Unsupported('result is not a list')
                if [tuple(x) for x in got] != want:
                    rep.violates(rule, f, 'def ' + f.name, 'for the word {!r} the recorded run is {} instead of {}: a row does not follow from the previous one by the transition on the next symbol'.format(word, got, want))
                    return
    except (Unsupported, RecursionError) as e:
        rep.undecided(rule, f, 'def ' + f.name, 'outside the evaluator: {}'.format(e))
        return
    rep.holds(rule, f, 'def ' + f.name, 'on a three-state DFA and all {} words up to length 3 every row follows from the previous row by the transition on the next unread symbol'.format(cases))


def _pda_classes():
    # 'real': the configuration class as the analysed tree defines it (its __init__ is evaluated; seed C15-k changes the type of the stack there)
    return {'PDAState': 'real'}


def _pda_model():
    """push, pop, replace (same and different symbol), and moves that leave the stack alone; symbol `a` and epsilon `e`"""
    E = 'e'
    delta = {
        ('p', 'a', E): {('q', 'x')},            # push
        ('q', 'a', 'x'): {('p', E)},            # pop
        ('q', 'a', E): {('q', E)},              # no stack effect
        ('p', 'a', 'x'): {('r', 'y')},          # replace x by y
        ('r', 'a', 'y'): {('r', 'y')},          # replace y by y
        ('p', E, E): {('q', 'y')},              # epsilon push
        ('q', E, 'y'): {('r', 'x')},            # epsilon replace
        ('r', E, 'x'): {('p', E)},              # epsilon pop
    }
    return Obj('PDA', Q={'p', 'q', 'r'}, Sigma={'a'}, Gamma={'x', 'y'}, delta=delta, q0='p', F={'r'}, epsilon=E), E


def _pda_succ(P, E, conf, a):
    q0, st = conf
    out = set()
    for (p, a1, u0), Q1 in P._f['delta'].items():
        if p != q0 or a1 != a:
            continue
        for (q, v) in Q1:
            if u0 == E or (st and st[-1] == u0):
                base = list(st) if u0 == E else list(st[:-1])
                out.add((q, tuple(base + ([v] if v != E else []))))
    return out


def check_pda_step(ctx, rep, f, epsilon_moves, rule=RULE + '.M11'):
    """pda_do_transition / pda_epsilon_closure, evaluated on a PDA whose transitions push, pop, replace a symbol by another, by
    itself, and leave the stack alone: the configurations returned are exactly those of the definition (pop u if it is on
    top, push v) -- for the symbol step from every start configuration with a stack of height <= 2, for the closure the
    least set closed under the epsilon moves."""
    from ..model import AnalysisError
    P, E = _pda_model()
    stacks = [()] + [(s,) for s in 'xy'] + [(s, t) for s in 'xy' for t in 'xy']
    cases = 0
    try:
        for q in sorted(P._f['Q']):
            for st in stacks:
                R = [Obj('PDAState', q=q, stack=list(st))]
                it = Interp(ctx, classes=_pda_classes(), max_steps=200000)
                it.constants = {'GambaTools.pda_epsilon_closure_max_iterations': 1000}
                try:
                    got = it.call(f, [P, R]) if epsilon_moves else it.call(f, [P, 'a', R])
                except Raised as ex:
                    if ex.name in ('TypeError', 'AttributeError'):
                        raise Unsupported('the evaluator met a {} it cannot attribute to the code'.format(ex.name))
                    rep.violates(rule, f, 'def ' + f.name, 'raises {} from the configuration ({}, {})'.format(ex.name, q, list(st)))
                    return
                if epsilon_moves:
                    want, todo = {(q, st)}, [(q, st)]
                    while todo:
                        c = todo.pop()
                        for d in _pda_succ(P, E, c, E):
                            if d not in want and len(d[1]) <= 6:
                                want.add(d)
                                todo.append(d)
                else:
                    want = _pda_succ(P, E, (q, st), 'a')
                cases += 1
                gotset = set()
                for x in got:
                    if not (isinstance(x, Obj) and x._cls == 'PDAState'):
                        raise Unsupported('result element is not a configuration')
                    gotset.add((x._f['q'], tuple(x._f['stack'])))
                if gotset != want:
                    miss, extra = sorted(want - gotset), sorted(gotset - want)
                    rep.violates(rule, f, 'def ' + f.name, 'from the configuration ({}, {}) the {} gives {} where the definition gives {}{}{}: the stack effect of a move (pop u if it is on top, then push v) is not applied as defined'.format(
                        q, list(st), 'epsilon closure' if epsilon_moves else 'step on a', sorted(gotset), sorted(want),
                        '; missing {}'.format(miss[:2]) if miss else '', '; not a successor: {}'.format(extra[:2]) if extra else ''))
                    return
    except (Unsupported, RecursionError) as e:
        rep.undecided(rule, f, 'def ' + f.name, 'outside the evaluator: {}'.format(e))
        return
    rep.holds(rule, f, 'def ' + f.name, 'on a PDA with push, pop, replacing and stack-neutral moves and {} start configurations the result is the set of configurations of the definition'.format(cases))


# ---- the printed form of a regular expression reads back as the expression (simple syntax) -----------------------------

def _to_obj(t):
    k = t[0]
    if k in ('Zero', 'One'):
        return Obj(k)
    if k == 'Symbol':
        return Obj('Symbol', symbol=t[1])
    if k == 'Iteration':
        return Obj('Iteration', operand=_to_obj(t[1]))
    return Obj(k, left=_to_obj(t[1]), right=_to_obj(t[2]))


def _parse_simple(text):
    """the analyser's own reader of the simple syntax (regexp_simple.g4: star binds tighter than juxtaposition, juxtaposition
    tighter than +); returns a shape or None"""
    toks = [c for c in text if not c.isspace()]
    pos = [0]

    def peek():
        return toks[pos[0]] if pos[0] < len(toks) else None

    def atom():
        c = peek()
        if c is None:
            return None
        if c == '(':
            pos[0] += 1
            e = summ()
            if e is None or peek() != ')':
                return None
            pos[0] += 1
        elif c == '0':
            pos[0] += 1
            e = ('Zero',)
        elif c == '1':
            pos[0] += 1
            e = ('One',)
        elif c.isalpha():
            pos[0] += 1
            e = ('Symbol', c)
        else:
            return None
        while peek() == '*':
            pos[0] += 1
            e = ('Iteration', e)
        return e

    def concat():
        e = atom()
        if e is None:
            return None
        while peek() is not None and peek() not in '+)':
            r = atom()
            if r is None:
                return None
            e = ('Concat', e, r)
        return e

    def summ():
        e = concat()
        if e is None:
            return None
        while peek() == '+':
            pos[0] += 1
            r = concat()
            if r is None:
                return None
            e = ('Sum', e, r)
        return e
    e = summ()
    return e if e is not None and pos[0] == len(toks) else None


def _flat(sh):
    if sh[0] in ('Sum', 'Concat'):
        parts = []

        def go(x):
            if x[0] == sh[0]:
                go(x[1]); go(x[2])
            else:
                parts.append(_flat(x))
        go(sh)
        return (sh[0],) + tuple(parts)
    if sh[0] == 'Iteration':
        return ('Iteration', _flat(sh[1]))
    return sh


def check_print_simple_roundtrip(ctx, rep, f, rule='R-IO.rt'):
    """print_regexp_simple, evaluated on every expression tree of depth <= 3 (distinct letters at the leaves): the text, read
    with the analyser's own reader of regexp_simple.g4, is the expression again up to the nesting of + and juxtaposition
    chains.  Parentheses are decided by the classes of a node and its children, so depth 3 has every combination."""
    from .. import shapes
    it = Interp(ctx, max_steps=400000)
    it.superclasses = {k: ('Regexp',) for k in ('Zero', 'One', 'Symbol', 'Iteration', 'Sum', 'Concat')}
    n = 0
    try:
        for t in shapes.shapes(3):
            r = shapes.rename(t, 'x')
            # letters of the simple syntax are single characters
            names = {}

            def single(x):
                if x[0] == 'Symbol':
                    names.setdefault(x[1], 'abcdefghijklmnopqrstuvwxyz'[len(names) % 26])
                    return ('Symbol', names[x[1]])
                return (x[0],) + tuple(single(y) for y in x[1:])
            r = single(r)
            try:
                text = it.call(f, [_to_obj(r)])
            except Raised as ex:
                if ex.name in ('TypeError', 'AttributeError'):
                    raise Unsupported('the evaluator met a {} it cannot attribute to the code'.format(ex.name))
                rep.violates(rule, f, 'def ' + f.name, 'raises {} for an expression of depth {}'.format(ex.name, 3))
                return
            it.steps = 0
            n += 1
            if not isinstance(text, str):
                raise Unsupported('the printer does not return a string')
            back = _parse_simple(text)
            if back is None or _flat(back) != _flat(r):
                from .. import ka
                rep.violates(rule, f, 'def ' + f.name, 'the expression {} is printed as {!r}, which reads back as {}: parentheses are missing (or misplaced), so the printed text denotes another expression'.format(
                    ka.show(shapes.ka_of(r)), text, ka.show(shapes.ka_of(back)) if back is not None else 'nothing (not well formed)'))
                return
    except (Unsupported, RecursionError) as e:
        rep.undecided(rule, f, 'def ' + f.name, 'outside the evaluator: {}'.format(e))
        return
    rep.holds(rule, f, 'def ' + f.name, 'on all {} expression trees of depth <= 3 the printed text reads back (analyser\'s reader of regexp_simple.g4) as the expression, up to the nesting of chains'.format(n))
