"""Finite models of the TEXT FORMATS, added in seed round k (C13, C16, C17).

The printers (print_dfa / print_nfa / print_pda / print_tm / cfg_print_simple) and the line parsers with their builders are
string code: until round k they were only looked at by the structural writer/reader rules (R-IO, R-BUILD).  Since round k
the analyser's evaluator (miniexec) also interprets the classes of the analysed tree (AutomatonParser, the builders, the
automaton classes with their validity checks), the functions of `re` it is handed (delegated to the analyser's own standard
library on model strings) and try/except, so the composition parse(print(A)) can be evaluated on model automata built by
the analyser and compared field by field with A (M35), and the parsers can be evaluated on model DESCRIPTIONS -- well
formed ones in several layouts with the automaton they describe written out by hand, and single-fault corruptions that
the property says are rejected (M36).  Nothing of the repository is imported or run.  A HOLDS verdict says "on these models"
and nothing more; a VIOLATES verdict carries the text and the field that differs."""
from ..abseval import Unsupported
from ..miniexec import Interp, Obj, Raised
from .small_models2 import V, T

RULE = 'R-MODEL'


def _interp(ctx, order, classes=None):
    it = Interp(ctx, max_steps=400000, classes=classes)
    it.set_order = order
    it.real_classes = True
    it.copy_records = True
    it.printed = []
    return it


def _norm_map(d):
    """a transition map as a plain dict without empty target sets (a defaultdict read leaves them behind; they carry no transition)"""
    out = {}
    for k, v in dict(d).items():
        if isinstance(v, (set, frozenset)):
            if v:
                out[k] = frozenset(v)
        else:
            out[k] = v
    return out


def _norm(o):
    if not isinstance(o, Obj):
        return ('not an object', repr(o))
    out = {'class': o._cls}
    for k, v in o._f.items():
        if k == 'delta':
            out[k] = _norm_map(v)
        elif isinstance(v, (set, frozenset)):
            out[k] = frozenset(v)
        else:
            out[k] = v
    return out


def _diff(a, b):
    """the first field of the expected record a that differs in b (fields that only b has -- a cache, say -- are not the property's business)"""
    for k in sorted(set(a)):
        if a.get(k, '<absent>') != b.get(k, '<absent>'):
            return k, a.get(k, '<absent>'), b.get(k, '<absent>')
    return None


def _show(v):
    if isinstance(v, (set, frozenset)):
        return '{' + ', '.join(sorted(map(repr, v))) + '}'
    if isinstance(v, dict):
        return '{' + ', '.join('{!r}: {}'.format(k, _show(x)) for k, x in sorted(v.items(), key=repr)) + '}'
    return repr(v)


# ---- model automata ---------------------------------------------------------------------------------------------------------------------

def _dfa(Q, Sigma, trans, q0, F):
    return Obj('DFA', Q=set(Q), Sigma=set(Sigma), delta={(p, a): q for p, a, q in trans}, q0=q0, F=set(F))


def _nfa(Q, Sigma, trans, q0, F, eps):
    d = {}
    for p, a, q in trans:
        d.setdefault((p, a), set()).add(q)
    return Obj('NFA', Q=set(Q), Sigma=set(Sigma), delta=d, q0=q0, F=set(F), epsilon=eps)


def _pda(Q, Sigma, Gamma, trans, q0, F, eps):
    d = {}
    for p, a, u, q, v in trans:
        d.setdefault((p, a, u), set()).add((q, v))
    return Obj('PDA', Q=set(Q), Sigma=set(Sigma), Gamma=set(Gamma), delta=d, q0=q0, F=set(F), epsilon=eps)


def _tm(Q, Sigma, Gamma, trans, q0, acc, rej, blank):
    return Obj('TM', Q=set(Q), Sigma=set(Sigma), Gamma=set(Gamma), delta={(p, a): (q, b, d) for p, a, q, b, d in trans}, q0=q0, q_accept=acc, q_reject=rej, blank=blank)


def model_dfas():
    return {
        'two states, two labels on one edge': _dfa({'q0', 'q1'}, {'a', 'b'}, [('q0', 'a', 'q1'), ('q0', 'b', 'q1'), ('q1', 'a', 'q0'), ('q1', 'b', 'q1')], 'q0', {'q1'}),
        'empty accepting set': _dfa({'s'}, {'a'}, [('s', 'a', 's')], 's', set()),
        'empty alphabet': _dfa({'s', 't'}, set(), [], 's', {'s'}),
        'names that are prefixes of one another, digits as symbols': _dfa({'q1', 'q10', 'q100'}, {'0', '1'}, [('q1', '0', 'q10'), ('q1', '1', 'q1'), ('q10', '0', 'q100'), ('q10', '1', 'q1'), ('q100', '0', 'q100'), ('q100', '1', 'q100')], 'q10', {'q1', 'q100'}),
        'unreachable state, final initial state': _dfa({'A', 'B', 'C'}, {'x'}, [('A', 'x', 'A'), ('B', 'x', 'A'), ('C', 'x', 'B')], 'A', {'A', 'C'}),
        'states named like the keywords of the other kinds': _dfa({'epsilon', 'accept', 'blank'}, {'a'}, [('epsilon', 'a', 'accept'), ('accept', 'a', 'blank'), ('blank', 'a', 'blank')], 'epsilon', {'accept'}),
    }


def model_nfas():
    return {
        'epsilon ε, a state without transitions, a declared symbol no transition uses': _nfa({'p', 'q', 'r'}, {'a', 'b', 'c'}, [('p', 'a', 'q'), ('p', 'ε', 'q'), ('p', 'a', 'p'), ('q', 'b', 'p')], 'p', {'q'}, 'ε'),
        'epsilon _, no epsilon move, empty accepting set': _nfa({'p', 'q'}, {'a'}, [('p', 'a', 'q'), ('p', 'a', 'p')], 'p', set(), '_'),
        'a letter as epsilon, two labels on one edge': _nfa({'s0', 's1'}, {'a', 'b'}, [('s0', 'a', 's1'), ('s0', 'b', 's1'), ('s0', 'e', 's1'), ('s1', 'e', 's0')], 's0', {'s0', 's1'}, 'e'),
        'no transitions at all': _nfa({'z'}, set(), [], 'z', {'z'}, 'ε'),
        'states named like the keywords of the other kinds': _nfa({'accept', 'reject', 'stack_symbols'}, {'a', 'b'}, [('accept', 'a', 'accept'), ('accept', 'b', 'accept'), ('accept', 'a', 'reject'), ('reject', 'b', 'stack_symbols'), ('stack_symbols', 'a', 'stack_symbols')], 'accept', {'reject'}, 'ε'),
    }


def model_pdas():
    return {
        'push, pop, replace and plain moves': _pda({'q0', 'q1', 'q2'}, {'a', 'b'}, {'x', 'y', '$'},
                                                 [('q0', '_', '_', 'q1', '$'), ('q1', 'a', '_', 'q1', 'x'), ('q1', 'b', 'x', 'q1', '_'), ('q1', 'a', 'x', 'q1', 'y'), ('q1', '_', '$', 'q2', '_'), ('q1', 'b', '_', 'q1', '_')], 'q0', {'q2'}, '_'),
        'two moves on one key, a stack symbol no transition uses, epsilon ε': _pda({'p', 'q'}, {'a'}, {'x', 'z'}, [('p', 'a', 'ε', 'p', 'x'), ('p', 'a', 'ε', 'q', 'ε'), ('q', 'a', 'x', 'q', 'ε')], 'p', {'p', 'q'}, 'ε'),
        'no transitions, empty accepting set': _pda({'s'}, {'a'}, {'x'}, [], 's', set(), '_'),
        'states named like the keywords of the other kinds': _pda({'blank', 'accept', 'tape_symbols'}, {'a'}, {'x'}, [('blank', 'a', '_', 'accept', 'x'), ('accept', 'a', 'x', 'accept', '_'), ('accept', 'a', '_', 'tape_symbols', '_'), ('tape_symbols', 'a', '_', 'tape_symbols', 'x')], 'blank', {'accept'}, '_'),
    }


def model_tms():
    return {
        'moves in both directions, a tape symbol no transition uses': _tm({'q0', 'q1', 'qa', 'qr'}, {'a', 'b'}, {'a', 'b', 'x', '_'},
                                                                     [('q0', 'a', 'q1', 'x', 'R'), ('q1', 'b', 'q0', 'b', 'L'), ('q1', '_', 'qa', '_', 'R'), ('q0', 'x', 'q0', 'x', 'R')], 'q0', 'qa', 'qr', '_'),
        'blank □, the initial state loops': _tm({'s', 'acc', 'rej'}, {'0'}, {'0', '□'}, [('s', '0', 's', '0', 'R'), ('s', '□', 'acc', '□', 'L')], 's', 'acc', 'rej', '□'),
        'no transitions': _tm({'s', 'acc', 'rej'}, {'a'}, {'a', '_'}, [], 's', 'acc', 'rej', '_'),
        'empty input alphabet, transitions on tape symbols only': _tm({'s', 'acc', 'rej'}, set(), {'x', '_'}, [('s', '_', 's', 'x', 'R'), ('s', 'x', 'acc', 'x', 'L')], 's', 'acc', 'rej', '_'),
        'states named like the keywords of the other kinds': _tm({'epsilon', 'stack_symbols', 'A', 'R'}, {'a'}, {'a', '_'}, [('epsilon', 'a', 'stack_symbols', 'a', 'R'), ('stack_symbols', 'a', 'stack_symbols', '_', 'L'), ('stack_symbols', '_', 'A', '_', 'R')], 'epsilon', 'A', 'R', '_'),
    }


KINDS = [
    ('DFA', 'dfa_algorithms.print_dfa', 'dfa_algorithms.parse_dfa', model_dfas),
    ('NFA', 'nfa_algorithms.print_nfa', 'nfa_algorithms.parse_nfa', model_nfas),
    ('PDA', 'pda_algorithms.print_pda', 'pda_algorithms.parse_pda', model_pdas),
    ('TM', 'tm_algorithms.print_tm', 'tm_algorithms.parse_tm', model_tms),
]


def check_text_roundtrip(ctx, rep, rule=RULE + '.M35'):
    """parse_X(print_X(A)) on model automata of each kind, under two iteration orders of sets: the automaton read back has the
    same states, alphabets, transitions, initial and accepting / halting states and epsilon / blank symbol; A is untouched."""
    n_ok = 0
    for kind, pname, rname, models in KINDS:
        fp, fr = ctx.prog.func(pname), ctx.prog.func(rname)
        cases = 0
        bad = False
        try:
            for name in models():
                for order in ('asc', 'desc'):
                    A = models()[name]
                    before = _norm(A)
                    try:
                        text = _interp(ctx, order).call(fp, [A])
                    except Raised as ex:
                        if ex.name in ('TypeError', 'AttributeError'):
                            raise Unsupported('the evaluator met a {} it cannot attribute to the code'.format(ex.name))
                        rep.violates(rule, fp, 'def ' + fp.name, 'raises {} on the model {} "{}"'.format(ex.name, kind, name))
                        bad = True
                        break
                    if not isinstance(text, str):
                        raise Unsupported('the printer did not return a string')
                    if _norm(A) != before:
                        rep.violates(rule, fp, 'def ' + fp.name, 'modifies the {} it prints (model "{}")'.format(kind, name))
                        bad = True
                        break
                    try:
                        B = _interp(ctx, order).call(fr, [text])
                    except Raised as ex:
                        if ex.name in ('TypeError', 'AttributeError'):
                            raise Unsupported('the evaluator met a {} it cannot attribute to the code'.format(ex.name))
                        rep.violates(rule, fr, 'def ' + fr.name, 'the text printed for the model {} "{}" is rejected ({}: {}); text: {!r}'.format(kind, name, ex.name, ex.msg, text))
                        bad = True
                        break
                    d = _diff(before, _norm(B))
                    cases += 1
                    if d is not None:
                        rep.violates(rule, fr, 'def ' + fr.name, 'print / parse round trip of the model {} "{}": field {} was {} and is read back as {}; text: {!r}'.format(kind, name, d[0], _show(d[1]), _show(d[2]), text))
                        bad = True
                        break
                if bad:
                    break
        except (Unsupported, RecursionError) as e:
            rep.undecided(rule, fr, 'def ' + fr.name, 'outside the evaluator: {}'.format(e))
            continue
        if not bad:
            rep.holds(rule, fr, 'def ' + fr.name, 'on {} round trips (model {}s: {}; two iteration orders of sets) the automaton read back from the printed text equals the printed one field by field'.format(cases, kind, '; '.join(models())))
            n_ok += 1
    return n_ok


# ---- descriptions -----------------------------------------------------------------------------------------------------------------------
# (kind, name, text, expected automaton or None = must be rejected).  Written from the property text of C17 and the README of the formats.

def _descriptions():
    D = []
    dfa = _dfa({'q0', 'q1'}, {'a', 'b'}, [('q0', 'a', 'q1'), ('q0', 'b', 'q0'), ('q1', 'a', 'q1'), ('q1', 'b', 'q0')], 'q0', {'q1'})
    D += [
        ('DFA', 'all declarations', 'states q0 q1\ninitial q0\nfinal q1\ninput_symbols a b\nq0 q1 a\nq0 q0 b\nq1 q1 a\nq1 q0 b\n', dfa),
        ('DFA', 'transitions first, comments, blank lines, no states / input_symbols lines', '% a comment\nq0 q1 a\n\nq0 q0 b\n   % indented comment\nq1 q1 a\nq1 q0 b\nfinal q1\ninitial q0', dfa),
        ('DFA', 'several labels per line', 'initial q0\nfinal q1\nq0 q1 a\nq0 q0 b\nq1 q1 a\nq1 q0 b', dfa),
        ('DFA', 'two labels on one line', 'initial s\nfinal\ns s a b', _dfa({'s'}, {'a', 'b'}, [('s', 'a', 's'), ('s', 'b', 's')], 's', set())),
        ('DFA', 'not deterministic', 'initial q0\nfinal q1\nq0 q1 a\nq0 q0 a\nq1 q1 a', None),
        ('DFA', 'not total', 'initial q0\nfinal q1\nq0 q1 a\nq0 q0 b\nq1 q1 a', None),
        ('DFA', 'not total because of a declared symbol', 'initial q0\ninput_symbols a b\nq0 q0 a', None),
        ('DFA', 'undeclared state', 'states q0\ninitial q0\nq0 q1 a\nq1 q1 a', None),
        ('DFA', 'undeclared symbol', 'initial q0\ninput_symbols a\nq0 q0 a\nq0 q0 b', None),
        ('DFA', 'no initial state', 'final q0\nq0 q0 a', None),
        ('DFA', 'two initial states', 'initial q0 q1\nq0 q0 a\nq1 q1 a', None),
        ('DFA', 'initial declared twice', 'initial q0\ninitial q0\nq0 q0 a', None),
        ('DFA', 'states declared twice', 'states q0\nstates q0\ninitial q0\nq0 q0 a', None),
        ('DFA', 'final declared twice', 'final q0\nfinal q0\ninitial q0\nq0 q0 a', None),
        ('DFA', 'input_symbols declared twice', 'input_symbols a\ninput_symbols a\ninitial q0\nq0 q0 a', None),
        ('DFA', 'transition without a label', 'initial q0\nq0 q0', None),
        ('DFA', 'ill-formed state name', 'initial q0\nq0 q0 a\nq0, q0 a', None),
        ('DFA', 'ill-formed state name with a well-formed prefix', 'initial q0\nfinal q0;\nq0 q0 a', None),
        ('DFA', 'ill-formed symbol with a well-formed prefix', 'initial q0\nq0 q0 a!', None),
        ('DFA', 'duplicate state in the states line', 'states q0 q0\ninitial q0\nq0 q0 a', None),
        ('DFA', 'undeclared final state', 'states q0\ninitial q0\nfinal q1\nq0 q0 a', None),
    ]
    nfa = _nfa({'p', 'q'}, {'a'}, [('p', 'a', 'q'), ('p', '_', 'q'), ('q', 'a', 'q')], 'p', {'q'}, '_')
    D += [
        ('NFA', 'default epsilon _', 'initial p\nfinal q\np q a _\nq q a', nfa),
        ('NFA', 'epsilon ε recognised from the transitions', 'initial p\nfinal q\np q a\nq q a ε', _nfa({'p', 'q'}, {'a'}, [('p', 'a', 'q'), ('q', 'a', 'q'), ('q', 'ε', 'q')], 'p', {'q'}, 'ε')),
        ('NFA', 'declared epsilon, declared alphabet larger than the used one, state without transitions', 'states p q r\ninput_symbols a b\nepsilon e\ninitial p\nfinal q\np q a e',
         _nfa({'p', 'q', 'r'}, {'a', 'b'}, [('p', 'a', 'q'), ('p', 'e', 'q')], 'p', {'q'}, 'e')),
        ('NFA', 'no transitions', 'states p\ninitial p\nfinal', _nfa({'p'}, set(), [], 'p', set(), '_')),
        ('NFA', 'undeclared symbol', 'input_symbols a\ninitial p\np p b', None),
        ('NFA', 'undeclared state', 'states p\ninitial p\np q a', None),
        ('NFA', 'no initial state', 'final p\np p a', None),
        ('NFA', 'two initial states', 'initial p q\np q a', None),
        ('NFA', 'epsilon declared twice', 'epsilon e\nepsilon e\ninitial p\np p a', None),
        ('NFA', 'epsilon declared without a value', 'epsilon\ninitial p\np p a', None),
        ('NFA', 'incomplete transition', 'initial p\np p', None),
        ('NFA', 'ill-formed state name with a well-formed prefix', 'initial p\nfinal p.\np p a', None),
    ]
    pda = _pda({'q0', 'q1'}, {'a', 'b'}, {'x'}, [('q0', 'a', '_', 'q0', 'x'), ('q0', 'b', 'x', 'q1', '_'), ('q1', 'b', 'x', 'q1', '_'), ('q1', '_', '_', 'q0', '_')], 'q0', {'q1'}, '_')
    D += [
        ('PDA', 'derived alphabets, default epsilon', 'initial q0\nfinal q1\nq0 q0 a,_x\nq0 q1 b,x_\nq1 q1 b,x_\nq1 q0 _,__', pda),
        ('PDA', 'all declarations, two labels on one line', 'states q0 q1\ninput_symbols a b\nstack_symbols x\nepsilon _\ninitial q0\nfinal q1\nq0 q0 a,_x\nq0 q1 b,x_\nq1 q1 b,x_\nq1 q0 _,__', pda),
        ('PDA', 'undeclared stack symbol', 'stack_symbols x\ninitial q0\nq0 q0 a,_y', None),
        ('PDA', 'undeclared input symbol', 'input_symbols a\ninitial q0\nq0 q0 b,_x', None),
        ('PDA', 'ill-formed label (no comma)', 'initial q0\nq0 q0 a_x', None),
        ('PDA', 'ill-formed label (too long)', 'initial q0\nq0 q0 a,_xy', None),
        ('PDA', 'ill-formed label (too short)', 'initial q0\nq0 q0 a,x', None),
        ('PDA', 'no initial state', 'final q0\nq0 q0 a,_x', None),
        ('PDA', 'two initial states', 'initial q0 q1\nq0 q1 a,_x', None),
        ('PDA', 'stack_symbols declared twice', 'stack_symbols x\nstack_symbols x\ninitial q0\nq0 q0 a,_x', None),
        ('PDA', 'undeclared state', 'states q0\ninitial q0\nq0 q1 a,_x', None),
    ]
    tm = _tm({'q0', 'q1', 'qa', 'qr'}, {'a'}, {'a', 'x', '_'}, [('q0', 'a', 'q1', 'x', 'R'), ('q1', '_', 'qa', '_', 'L')], 'q0', 'qa', 'qr', '_')
    D += [
        ('TM', 'all declarations', 'states q0 q1 qa qr\ninitial q0\naccept qa\nreject qr\ninput_symbols a\ntape_symbols a x _\nblank _\nq0 q1 ax,R\nq1 qa __,L', tm),
        ('TM', 'ill-formed direction', 'initial q0\naccept qa\nreject qr\nq0 qa ax,S', None),
        ('TM', 'ill-formed label (no comma)', 'initial q0\naccept qa\nreject qr\nq0 qa axR', None),
        ('TM', 'no initial state', 'accept qa\nreject qr\nq0 qa ax,R', None),
        ('TM', 'two initial states', 'initial q0 q1\naccept qa\nreject qr\nq0 qa ax,R\nq1 qa ax,R', None),
        ('TM', 'accept declared twice', 'initial q0\naccept qa\naccept qa\nreject qr\nq0 qa ax,R', None),
        ('TM', 'undeclared state', 'states q0 qa qr\ninitial q0\naccept qa\nreject qr\nq0 q1 ax,R', None),
    ]
    return D


def check_descriptions(ctx, rep, rule=RULE + '.M36'):
    """the parsers on model descriptions: a well-formed text gives exactly the automaton written next to it; a text with one of
    the faults the property lists is rejected with an exception (never an automaton)."""
    parsers = {kind: ctx.prog.func(rname) for kind, _, rname, _ in KINDS}
    n_ok = 0
    for kind, f in parsers.items():
        cases = rejected = 0
        bad = False
        try:
            for k, name, text, want in _descriptions():
                if k != kind or bad:
                    continue
                for order in ('asc', 'desc'):
                    try:
                        got = _interp(ctx, order).call(f, [text])
                        raised = None
                    except Raised as ex:
                        if ex.name in ('TypeError', 'AttributeError'):
                            raise Unsupported('the evaluator met a {} it cannot attribute to the code'.format(ex.name))
                        got, raised = None, ex
                    cases += 1
                    if want is None:
                        if raised is None:
                            rep.violates(rule, f, 'def ' + f.name, 'the ill-formed {} description "{}" is accepted and yields {}; text: {!r}'.format(kind, name, _show(_norm(got)) if isinstance(got, Obj) else repr(got), text))
                            bad = True
                            break
                        rejected += 1
                    else:
                        if raised is not None:
                            rep.violates(rule, f, 'def ' + f.name, 'the well-formed {} description "{}" is rejected ({}: {}); text: {!r}'.format(kind, name, raised.name, raised.msg, text))
                            bad = True
                            break
                        d = _diff(_norm(want), _norm(got))
                        if d is not None:
                            rep.violates(rule, f, 'def ' + f.name, 'the {} description "{}" is read with field {} = {} instead of {}; text: {!r}'.format(kind, name, d[0], _show(d[2]), _show(d[1]), text))
                            bad = True
                            break
        except (Unsupported, RecursionError) as e:
            rep.undecided(rule, f, 'def ' + f.name, 'outside the evaluator: {}'.format(e))
            continue
        if not bad:
            rep.holds(rule, f, 'def ' + f.name, 'on {} evaluations of model {} descriptions (two iteration orders of sets) every well-formed text gives exactly the automaton it describes and each of the {} single-fault texts is rejected with an exception'.format(cases, kind, rejected // 2))
            n_ok += 1
    return n_ok


# ---- Chomsky normal form test -----------------------------------------------------------------------------------------------------------

_CNF_GRAMMARS = {
    # name: (rules, is it in Chomsky normal form?)
    'S -> AB | a; A -> a; B -> b': ([('S', ['AB', 'a']), ('A', ['a']), ('B', ['b'])], True),
    'S -> AB | eps; A -> a; B -> b': ([('S', ['AB', '']), ('A', ['a']), ('B', ['b'])], True),
    'S -> a': ([('S', ['a'])], True),
    'S -> eps': ([('S', [''])], True),
    'S -> AB | eps; A -> a | eps; B -> b (an epsilon rule after the one of S)': ([('S', ['AB', '']), ('A', ['a', '']), ('B', ['b'])], False),
    'S -> AB; A -> eps | a; B -> b (an epsilon rule before any of S is missing)': ([('S', ['AB']), ('A', ['', 'a']), ('B', ['b'])], False),
    'A -> eps listed first: A -> eps | a; S -> AB | eps; B -> b, start S': ([('A', ['', 'a']), ('S', ['AB', '']), ('B', ['b'])], False),
    'S -> ABB | AB; A -> a; B -> b (three variables)': ([('S', ['ABB', 'AB']), ('A', ['a']), ('B', ['b'])], False),
    'S -> AB; A -> a; B -> ABAB (four variables)': ([('S', ['AB']), ('A', ['a']), ('B', ['ABAB', 'b'])], False),
    'S -> A; A -> a (unit rule)': ([('S', ['A']), ('A', ['a'])], False),
    'S -> aB; B -> b (terminal next to a variable)': ([('S', ['aB']), ('B', ['b'])], False),
    'S -> Ab; A -> a (variable next to a terminal)': ([('S', ['Ab']), ('A', ['a'])], False),
    'S -> ab (two terminals)': ([('S', ['ab'])], False),
    'S -> abc (three terminals)': ([('S', ['abc'])], False),
    'S -> AS | a; A -> a (start variable on a right-hand side)': ([('S', ['AS', 'a']), ('A', ['a'])], False),
    'S -> AB; A -> a; B -> SA | b (start variable on a later right-hand side)': ([('S', ['AB']), ('A', ['a']), ('B', ['SA', 'b'])], False),
    'S -> AB; A -> a; B -> b | BA | c (last rule fine, a middle one too)': ([('S', ['AB']), ('A', ['a']), ('B', ['b', 'BA', 'c'])], True),
    'S -> AB | aa; A -> a; B -> b (a bad rule in the middle)': ([('S', ['AB', 'aa', 'a']), ('A', ['a']), ('B', ['b'])], False),
}


def check_is_chomsky(ctx, rep, f=None, rule=RULE + '.M37'):
    """CFG.is_chomsky on model grammars: True exactly when every rule is A -> BC (B, C variables other than the start
    variable), A -> a, or S -> epsilon for the start variable S.  The models have the offending rule first, in the middle and last,
    right-hand sides of every shape up to length four, and epsilon rules of other variables before and after the one of S."""
    from .small_models2 import _grammar
    if f is None:
        f = ctx.prog.func('cfg.CFG.is_chomsky')
    cases = 0
    try:
        for name, (rules, want) in _CNF_GRAMMARS.items():
            for order in ('asc', 'desc'):
                G = _grammar(rules)
                G._f['epsilon'] = T('ε')
                it = _interp(ctx, order, classes={'Variable': lambda x: V(str(x)), 'Terminal': lambda x: T(str(x))})
                try:
                    got = it.call(f, [G])
                except Raised as ex:
                    if ex.name in ('TypeError', 'AttributeError'):
                        raise Unsupported('the evaluator met a {} it cannot attribute to the code'.format(ex.name))
                    rep.violates(rule, f, 'def ' + f.name, 'raises {} on the grammar {}'.format(ex.name, name))
                    return
                if not isinstance(got, bool):
                    raise Unsupported('the answer is not a boolean')
                cases += 1
                if got != want:
                    rep.violates(rule, f, 'def ' + f.name, 'the grammar {} is reported {} Chomsky normal form although it is {}'.format(name, 'in' if got else 'not in', 'in it' if want else 'not'))
                    return
    except (Unsupported, RecursionError) as e:
        rep.undecided(rule, f, 'def ' + f.name, 'outside the evaluator: {}'.format(e))
        return
    rep.holds(rule, f, 'def ' + f.name, 'on {} evaluations ({} model grammars, two iteration orders of sets) the answer is True exactly for the grammars whose rules are all A -> BC without the start variable, A -> a, or S -> epsilon'.format(cases, len(_CNF_GRAMMARS)))


# ---- the simplifier on model expressions --------------------------------------------------------------------------------------------------

def check_simplify_models(ctx, rep, f=None, rule=RULE + '.M38'):
    """regexp_simplify on the model expressions of M22 (among them expressions over the LETTERS 0 and 1, whose printed form
    coincides with the constants): the result denotes the same words up to length 3 (set semantics computed by the analyser) and
    the argument is untouched.  The Kleene-algebra rule M3 treats letters as free variables and cannot see a decision taken on
    the printed form of a subexpression; this model can."""
    from .small_models2 import _model_regexps, _rx, _rx_lang, _rx_str, _rx_tuple, _RX_CLASSES
    if f is None:
        f = ctx.prog.func('regexp_algorithms.regexp_simplify')
    cases = 0
    try:
        for t in _model_regexps():
            r = _rx(t)
            it = _interp(ctx, 'asc', classes=dict(_RX_CLASSES))
            it.real_classes = False
            it.superclasses = {k: ('Regexp',) for k in ('Zero', 'One', 'Symbol', 'Iteration', 'Sum', 'Concat')}
            try:
                got = it.call(f, [r])
            except Raised as ex:
                if ex.name in ('TypeError', 'AttributeError'):
                    raise Unsupported('the evaluator met a {} it cannot attribute to the code'.format(ex.name))
                rep.violates(rule, f, 'def ' + f.name, 'raises {} on the expression {}'.format(ex.name, _rx_str(t)))
                return
            cases += 1
            if _rx_tuple(r) != t:
                rep.violates(rule, f, 'def ' + f.name, 'the expression {} handed in is modified'.format(_rx_str(t)))
                return
            t1 = _rx_tuple(got)
            want, have = _rx_lang(t, 3), _rx_lang(t1, 3)
            if want != have:
                extra, missing = sorted(have - want), sorted(want - have)
                rep.violates(rule, f, 'def ' + f.name, 'the expression {} (letters 0 / 1 are symbols here) is simplified to {}, which {}'.format(
                    _rx_str(t), _rx_str(t1), 'also denotes {!r}'.format(extra[0]) if extra else 'no longer denotes {!r}'.format(missing[0])))
                return
    except (Unsupported, RecursionError) as e:
        rep.undecided(rule, f, 'def ' + f.name, 'outside the evaluator: {}'.format(e))
        return
    rep.holds(rule, f, 'def ' + f.name, 'on {} model expressions (twelve of them over the letters 0 and 1, which print like the constants) the simplified expression denotes the same words up to length 3 and the argument is untouched'.format(cases))


# ---- simple grammar format: print / parse round trip ------------------------------------------------------------------------------------------

_SIMPLE_GRAMMARS = {
    'S -> aSb | eps': [('S', ['aSb', ''])],
    'S -> aT; T -> bT | eps (the empty alternative is not on the first line)': [('S', ['aT']), ('T', ['bT', ''])],
    'S -> AB | a; A -> aA | eps; B -> bB | A': [('S', ['AB', 'a']), ('A', ['aA', '']), ('B', ['bB', 'A'])],
    'S -> a (no empty alternative)': [('S', ['a'])],
    'S -> eps': [('S', [''])],
    'S -> AB; A -> a; B -> b | eps | BB (the empty alternative in the middle)': [('S', ['AB']), ('A', ['a']), ('B', ['b', '', 'BB'])],
    'S -> T | U; T -> abc; U -> S (unit rules, a long terminal string)': [('S', ['T', 'U']), ('T', ['abc']), ('U', ['S'])],
}


def check_simple_cfg_roundtrip(ctx, rep, fp=None, fr=None, rule=RULE + '.M39'):
    """parse_simple_cfg(cfg_print_simple(G)) on model grammars in the simple format whose variables all have rules: the same
    variables, terminals, start variable and rules (as a list, in order -- the reader takes the start variable from the first
    rule).  The empty alternative occurs on the first line, on a later line only, in the middle of a line, and not at all."""
    from .small_models2 import _grammar, _rules_of, _CFG_CLASSES
    fp = fp or ctx.prog.func('cfg_algorithms.cfg_print_simple')
    fr = fr or ctx.prog.func('cfg_algorithms.parse_simple_cfg')
    classes = dict(_CFG_CLASSES)
    classes['Variable'] = lambda x: V(str(x))
    classes['Terminal'] = lambda x: T(str(x))
    classes['CFG'] = lambda Vs, Sigma, R, S, *a, **k: Obj('CFG', V=Vs, Sigma=Sigma, R=R, S=S)
    cases = 0
    try:
        for name, rules in _SIMPLE_GRAMMARS.items():
            for order in ('asc', 'desc'):
                G = _grammar(rules)
                G._f['epsilon'] = T('ε')
                before = (_rules_of(G), {str(x) for x in G._f['V']}, {str(x) for x in G._f['Sigma']}, str(G._f['S']))
                try:
                    text = _interp(ctx, order, classes=classes).call(fp, [G])
                    if not isinstance(text, str):
                        raise Unsupported('the printer did not return a string')
                    if (_rules_of(G), {str(x) for x in G._f['V']}, {str(x) for x in G._f['Sigma']}, str(G._f['S'])) != before:
                        rep.violates(rule, fp, 'def ' + fp.name, 'printing the grammar {} modifies it'.format(name))
                        return
                    H = _interp(ctx, order, classes=classes).call(fr, [text])
                except Raised as ex:
                    if ex.name in ('TypeError', 'AttributeError') and not getattr(ex, 'certain', False):
                        raise Unsupported('the evaluator met a {} it cannot attribute to the code'.format(ex.name))
                    rep.violates(rule, fr, 'def ' + fr.name, 'printing and re-reading the grammar {} raises {} ({})'.format(name, ex.name, ex.msg))
                    return
                if not isinstance(H, Obj) or H._cls != 'CFG':
                    raise Unsupported('the reader did not return a grammar')
                cases += 1
                after = (_rules_of(H), {str(x) for x in H._f['V']}, {str(x) for x in H._f['Sigma']}, str(H._f['S']))
                for what, a, b in zip(('rules', 'variables', 'terminals', 'start variable'), before, after):
                    if a != b:
                        rep.violates(rule, fr, 'def ' + fr.name, 'print / parse round trip of the grammar {}: the {} were {} and are read back as {}; text: {!r}'.format(name, what, a, b, text))
                        return
    except (Unsupported, RecursionError) as e:
        rep.undecided(rule, fr, 'def ' + fr.name, 'outside the evaluator: {}'.format(e))
        return
    rep.holds(rule, fr, 'def ' + fr.name, 'on {} round trips ({} model grammars in the simple format, two iteration orders of sets; the empty alternative on the first line, on a later line only, in the middle of a line, nowhere) the grammar read back has the same rules in the same order, variables, terminals and start variable'.format(cases, len(_SIMPLE_GRAMMARS)))


# ---- the DFA exercise checkers on model answers (C12 / C13) -----------------------------------------------------------------------------------

_D1 = 'initial e\nfinal e\ne o a\no e a\ne e b\no o b'          # an even number of a's
_D2 = 'initial n\nfinal y\nn n a\ny n a\nn y b\ny y b'          # ends with b


def _product_text(final, redirect=None):
    """the product of _D1 and _D2 in the text format, with the given accepting pairs; redirect = ((state, symbol), target) changes one edge"""
    lines = ['initial (e,n)', 'final ' + ' '.join(final)]
    for x in 'eo':
        for s in 'ny':
            for a in 'ab':
                tgt = '({},{})'.format(('o' if x == 'e' else 'e') if a == 'a' else x, 'n' if a == 'a' else 'y')
                if redirect and redirect[0] == ('({},{})'.format(x, s), a):
                    tgt = redirect[1]
                lines.append('({},{}) {} {}'.format(x, s, tgt, a))
    return '\n'.join(lines)


_F_UNION = ['(e,n)', '(e,y)', '(o,y)']
_F_INTER = ['(e,y)']
_F_SYMDIFF = ['(e,n)', '(o,y)']
_ENDS_A = 'initial p\nfinal q\ninput_symbols a b\np p a b\np q a'
_MIN_REF = 'initial p\nfinal q r\np q a\nq r a\nr q a'          # a+ with two equivalent states
_CHECKER_CASES = [
    # (checker, arguments, is the answer right?, what it is)
    ('notebook_dfa.check_dfa_union', [_product_text(_F_UNION), _D1, _D2, 3], True, 'the product with the accepting pairs of the union'),
    ('notebook_dfa.check_dfa_union', [_product_text(_F_INTER), _D1, _D2, 3], False, 'the product with the accepting pairs of the intersection'),
    ('notebook_dfa.check_dfa_union', [_product_text(_F_SYMDIFF), _D1, _D2, 3], False, 'the product with the accepting pairs of the symmetric difference'),
    ('notebook_dfa.check_dfa_union', [_product_text(_F_UNION, ((('(e,n)'), 'a'), '(e,n)')), _D1, _D2, 3], False, 'the union product with one a-edge redirected'),
    ('notebook_dfa.check_dfa_intersection', [_product_text(_F_INTER), _D1, _D2, 3], True, 'the product with the accepting pairs of the intersection'),
    ('notebook_dfa.check_dfa_intersection', [_product_text(_F_UNION), _D1, _D2, 3], False, 'the product with the accepting pairs of the union'),
    ('notebook_dfa.check_dfa_intersection', [_product_text([]), _D1, _D2, 3], False, 'the product without accepting pairs'),
    ('notebook_dfa.check_dfa_symmetric_difference', [_product_text(_F_SYMDIFF), _D1, _D2, 3], True, 'the product with the accepting pairs of the symmetric difference'),
    ('notebook_dfa.check_dfa_symmetric_difference', [_product_text(_F_UNION), _D1, _D2, 3], False, 'the product with the accepting pairs of the union'),
    ('notebook_dfa.check_dfa_symmetric_difference', [_product_text(_F_INTER), _D1, _D2, 3], False, 'the product with the accepting pairs of the intersection'),
    ('notebook_dfa.check_dfa_complement', ['initial e\nfinal o\ne o a\no e a\ne e b\no o b', _D1, 3], True, 'the DFA with the accepting states complemented'),
    ('notebook_dfa.check_dfa_complement', [_D1, _D1, 3], False, 'the original DFA'),
    ('notebook_dfa.check_dfa_complement', ['initial e\nfinal\ne o a\no e a\ne e b\no o b', _D1, 3], False, 'the DFA without accepting states'),
    ('notebook_dfa.check_dfa_complement', ['initial e\nfinal e o\ne o a\no e a\ne e b\no o b', _D1, 3], False, 'the DFA with every state accepting'),
    ('notebook_dfa.check_dfa_complement', ['initial e\nfinal o\ne o a\no o a\ne e b\no o b', _D1, 3], False, 'the complemented DFA with one edge redirected'),
    ('notebook_dfa.check_dfa_minimal', [_MIN_REF, 'initial A\nfinal B\nA B a\nB B a', 4], True, 'the two-state DFA of a+'),
    ('notebook_dfa.check_dfa_minimal', [_MIN_REF, _MIN_REF, 4], False, 'the original DFA, which has two equivalent states'),
    ('notebook_dfa.check_dfa_minimal', [_MIN_REF, 'initial A\nfinal A\nA B a\nB B a', 4], False, 'a two-state DFA of another language'),
    ('notebook_dfa.check_dfa_minimal', [_MIN_REF, 'initial A\nfinal B\nA B a\nB A a', 4], False, 'a two-state DFA of the odd powers of a'),
    # the NFA of the words that end with a, and its subset automaton
    ('notebook_nfa2dfa.check_nfa2dfa', [_ENDS_A, 'initial {p}\nfinal {p,q}\n{p} {p,q} a\n{p} {p} b\n{p,q} {p,q} a\n{p,q} {p} b'], True, 'the subset automaton'),
    ('notebook_nfa2dfa.check_nfa2dfa', [_ENDS_A, 'initial {p}\nfinal {p}\n{p} {p,q} a\n{p} {p} b\n{p,q} {p,q} a\n{p,q} {p} b'], False, 'the subset automaton with the wrong accepting subset'),
    ('notebook_nfa2dfa.check_nfa2dfa', [_ENDS_A, 'initial {p}\nfinal {p,q}\n{p} {p,q} a\n{p} {p} b\n{p,q} {p,q} a\n{p,q} {p,q} b'], False, 'the subset automaton with the b-edge of {p,q} redirected'),
    ('notebook_nfa2dfa.check_nfa2dfa', [_ENDS_A, 'initial {p,q}\nfinal {p,q}\n{p} {p,q} a\n{p} {p} b\n{p,q} {p,q} a\n{p,q} {p} b'], False, 'the subset automaton started in {p,q}'),
    ('notebook_nfa2dfa.check_nfa2dfa', [_ENDS_A, 'initial {p}\nfinal {p,q}\n{p} {p,q} a\n{p} {p} b\n{p,q} {p,q} a'], False, 'the subset automaton without the b-edge of {p,q}'),
    # language given by its words up to a length (the empty word is written ε or _)
    ('notebook.check_dfa_language_from_words', [_D1, 'ε b aa bb', 2, 0], True, 'the DFA of an even number of a, words up to length 2'),
    ('notebook.check_dfa_language_from_words', [_D1, 'b aa bb', 2, 0], False, 'the same DFA against a list without the empty word'),
    ('notebook.check_dfa_language_from_words', [_D1, '_ b aa bb ab', 2, 0], False, 'the same DFA against a list with ab'),
    ('notebook.check_dfa_language_from_words', [_D2, 'b ab bb', 2, 0], True, 'the DFA of the words ending with b, words up to length 2'),
    ('notebook.check_dfa_language_from_words', [_D2, 'b ab bb', 2, 1], False, 'the same DFA with at most one state allowed'),
    ('notebook.check_dfa_language_from_words', [_D2, '', 2, 0], False, 'the same DFA against the empty list'),
    ('notebook.check_dfa_accepts_rejects', [_D1, 'ε aa baab', 'a ab'], True, 'accepted and rejected words of the even-a DFA'),
    ('notebook.check_dfa_accepts_rejects', [_D1, 'ε aa a', 'ab'], False, 'a rejected word in the accepted list'),
    ('notebook.check_dfa_accepts_rejects', [_D1, 'aa', 'ab ε'], False, 'the empty word in the rejected list of a DFA that accepts it'),
]


def check_dfa_checkers(ctx, rep, rule='R-FEEDBACK.K13'):
    """the exercise checkers (union, intersection, symmetric difference, complement, minimal DFA, NFA to DFA, language from a word list, accept / reject lists) evaluated whole -- parsers,
    library construction, language comparison, feedback -- on model exercises: OK is printed for the right answer (C13) and is
    NOT printed for answers whose language differs from the reference within the bound, or which are not minimal (C12)."""
    n_ok = 0
    by_checker = {}
    for spec, args, right, what in _CHECKER_CASES:
        by_checker.setdefault(spec, []).append((args, right, what))
    for spec, cases in by_checker.items():
        f = ctx.prog.func(spec)
        bad = False
        n = 0
        try:
            for args, right, what in cases:
                for order in ('asc', 'desc'):
                    it = _interp(ctx, order)
                    it.max_steps = 3000000
                    try:
                        it.call(f, list(args))
                    except Raised as ex:
                        if ex.name in ('TypeError', 'AttributeError') and not getattr(ex, 'certain', False):
                            raise Unsupported('the evaluator met a {} it cannot attribute to the code'.format(ex.name))
                        rep.violates(rule, f, 'def ' + f.name, 'raises {} for the answer "{}" instead of printing a verdict'.format(ex.name, what))
                        bad = True
                        break
                    n += 1
                    said_ok = [x.strip() for x in it.printed] == ['OK']
                    if right and not said_ok:
                        rep.violates(rule, f, 'def ' + f.name, 'the right answer ({}) is not accepted: the checker prints {!r}'.format(what, it.printed[:2]))
                        bad = True
                        break
                    if not right and any(x.strip() == 'OK' for x in it.printed):
                        rep.violates(rule, f, 'def ' + f.name, 'OK is printed for a wrong answer: {}'.format(what))
                        bad = True
                        break
                if bad:
                    break
        except (Unsupported, RecursionError) as e:
            rep.undecided(rule, f, 'def ' + f.name, 'outside the evaluator: {}'.format(e))
            continue
        if not bad:
            rep.holds(rule, f, 'def ' + f.name, 'on {} evaluations (model exercise, {} answers, two iteration orders of sets) OK is printed for the right answer and for none of the wrong ones'.format(n, len(cases)))
            n_ok += 1
    return n_ok


# ---- class invariants on model objects ------------------------------------------------------------------------------------------------------

def _invariant_cases():
    """(class, what, positional constructor arguments, valid?).  One object per invariant of the formal definition that violates exactly
    that invariant, and valid objects whose states are named after sets and pairs (nothing is demanded of what a name looks like)."""
    C = []
    dd = {('p', 'a'): 'q', ('q', 'a'): 'q'}
    C += [
        ('DFA', 'a valid DFA', [{'p', 'q'}, {'a'}, dict(dd), 'p', {'q'}], True),
        ('DFA', 'states named after sets and pairs, multi-character symbol names avoided', [{'{p,q}', '(p,q)'}, {'a'}, {('{p,q}', 'a'): '(p,q)', ('(p,q)', 'a'): '(p,q)'}, '{p,q}', {'(p,q)'}], True),
        ('DFA', 'states named after sets of sets and pairs of pairs (what minimising or multiplying a computed automaton gives)', [{'{{p,q},{r}}', '((p,q),r)'}, {'a'}, {('{{p,q},{r}}', 'a'): '((p,q),r)', ('((p,q),r)', 'a'): '((p,q),r)'}, '{{p,q},{r}}', {'((p,q),r)'}], True),
        ('DFA', 'empty alphabet, no accepting state', [{'p'}, set(), {}, 'p', set()], True),
        ('DFA', 'digits and punctuation as symbols', [{'p'}, {'0', '#'}, {('p', '0'): 'p', ('p', '#'): 'p'}, 'p', {'p'}], True),
        ('DFA', 'the initial state is not a state', [{'p', 'q'}, {'a'}, dict(dd), 'x', {'q'}], False),
        ('DFA', 'an accepting state is not a state', [{'p', 'q'}, {'a'}, dict(dd), 'p', {'q', 'x'}], False),
        ('DFA', 'a transition leaves a non-state', [{'p', 'q'}, {'a'}, dict(dd, **{}) | {('x', 'a'): 'p'}, 'p', {'q'}], False),
        ('DFA', 'a transition reads a symbol outside the alphabet', [{'p', 'q'}, {'a'}, dict(dd) | {('p', 'b'): 'p'}, 'p', {'q'}], False),
        ('DFA', 'a transition enters a non-state', [{'p', 'q'}, {'a'}, {('p', 'a'): 'x', ('q', 'a'): 'q'}, 'p', {'q'}], False),
        ('DFA', 'a transition reads the empty string, which is not a symbol of the alphabet', [{'p'}, {'a'}, {('p', 'a'): 'p', ('p', ''): 'p'}, 'p', {'p'}], False),
        ('DFA', 'the transition function is not total', [{'p', 'q'}, {'a'}, {('p', 'a'): 'q'}, 'p', {'q'}], False),
    ]
    nd = {('p', 'a'): {'p', 'q'}, ('p', 'e'): {'q'}}
    C += [
        ('NFA', 'a valid NFA', [{'p', 'q'}, {'a'}, dict(nd), 'p', {'q'}, 'e'], True),
        ('NFA', 'states named after sets and pairs, an empty target set', [{'{p,q}', '(p,q)'}, {'a'}, {('{p,q}', 'a'): {'(p,q)'}, ('(p,q)', 'a'): set()}, '{p,q}', set(), ''], True),
        ('NFA', 'the initial state is not a state', [{'p', 'q'}, {'a'}, dict(nd), 'x', {'q'}, 'e'], False),
        ('NFA', 'an accepting state is not a state', [{'p', 'q'}, {'a'}, dict(nd), 'p', {'x'}, 'e'], False),
        ('NFA', 'epsilon is an input symbol', [{'p', 'q'}, {'a', 'e'}, dict(nd), 'p', {'q'}, 'e'], False),
        ('NFA', 'a transition leaves a non-state', [{'p', 'q'}, {'a'}, dict(nd) | {('x', 'a'): {'p'}}, 'p', {'q'}, 'e'], False),
        ('NFA', 'a transition reads a symbol that is neither in the alphabet nor epsilon', [{'p', 'q'}, {'a'}, dict(nd) | {('p', 'b'): {'p'}}, 'p', {'q'}, 'e'], False),
        ('NFA', 'a transition enters a non-state', [{'p', 'q'}, {'a'}, {('p', 'a'): {'p', 'x'}}, 'p', {'q'}, 'e'], False),
    ]
    pd = {('p', 'a', '_'): {('p', 'x')}, ('p', '_', 'x'): {('q', '_')}}
    C += [
        ('PDA', 'a valid PDA', [{'p', 'q'}, {'a'}, {'x'}, dict(pd), 'p', {'q'}, '_'], True),
        ('PDA', 'the initial state is not a state', [{'p', 'q'}, {'a'}, {'x'}, dict(pd), 'z', {'q'}, '_'], False),
        ('PDA', 'an accepting state is not a state', [{'p', 'q'}, {'a'}, {'x'}, dict(pd), 'p', {'z'}, '_'], False),
        ('PDA', 'epsilon is an input symbol', [{'p', 'q'}, {'a', '_'}, {'x'}, dict(pd), 'p', {'q'}, '_'], False),
        ('PDA', 'epsilon is a stack symbol', [{'p', 'q'}, {'a'}, {'x', '_'}, dict(pd), 'p', {'q'}, '_'], False),
        ('PDA', 'a transition leaves a non-state', [{'p', 'q'}, {'a'}, {'x'}, dict(pd) | {('z', 'a', '_'): {('p', '_')}}, 'p', {'q'}, '_'], False),
        ('PDA', 'a transition reads a symbol outside the input alphabet', [{'p', 'q'}, {'a'}, {'x'}, dict(pd) | {('p', 'b', '_'): {('p', '_')}}, 'p', {'q'}, '_'], False),
        ('PDA', 'a transition pops a symbol outside the stack alphabet', [{'p', 'q'}, {'a'}, {'x'}, dict(pd) | {('p', 'a', 'y'): {('p', '_')}}, 'p', {'q'}, '_'], False),
        ('PDA', 'a transition enters a non-state', [{'p', 'q'}, {'a'}, {'x'}, dict(pd) | {('q', 'a', '_'): {('z', '_')}}, 'p', {'q'}, '_'], False),
        ('PDA', 'a transition pushes a symbol outside the stack alphabet', [{'p', 'q'}, {'a'}, {'x'}, dict(pd) | {('q', 'a', '_'): {('q', 'y')}}, 'p', {'q'}, '_'], False),
    ]
    td = {('s', 'a'): ('s', 'x', 'R'), ('s', '_'): ('A', '_', 'L')}
    base = [{'s', 'A', 'R'}, {'a'}, {'a', 'x', '_'}]
    C += [
        ('TM', 'a valid TM', base + [dict(td), 's', 'A', 'R', '_'], True),
        ('TM', 'a valid TM with a transition into the rejecting state', base + [dict(td) | {('s', 'x'): ('R', 'x', 'L')}, 's', 'A', 'R', '_'], True),
        ('TM', 'the initial state is not a state', base + [dict(td), 'z', 'A', 'R', '_'], False),
        ('TM', 'the accepting state is not a state', base + [dict(td), 's', 'z', 'R', '_'], False),
        ('TM', 'the rejecting state is not a state', base + [dict(td), 's', 'A', 'z', '_'], False),
        ('TM', 'the accepting and the rejecting state coincide', base + [dict(td), 's', 'A', 'A', '_'], False),
        ('TM', 'the blank is an input symbol', [{'s', 'A', 'R'}, {'a', '_'}, {'a', 'x', '_'}, dict(td), 's', 'A', 'R', '_'], False),
        ('TM', 'the blank is not a tape symbol', [{'s', 'A', 'R'}, {'a'}, {'a', 'x'}, {('s', 'a'): ('s', 'x', 'R')}, 's', 'A', 'R', '_'], False),
        ('TM', 'an input symbol is not a tape symbol', [{'s', 'A', 'R'}, {'a', 'b'}, {'a', 'x', '_'}, dict(td), 's', 'A', 'R', '_'], False),
        ('TM', 'a transition leaves a non-state', base + [dict(td) | {('z', 'a'): ('s', 'a', 'R')}, 's', 'A', 'R', '_'], False),
        ('TM', 'a transition reads a symbol outside the tape alphabet', base + [dict(td) | {('s', 'y'): ('s', 'a', 'R')}, 's', 'A', 'R', '_'], False),
        ('TM', 'a transition enters a non-state', base + [dict(td) | {('s', 'x'): ('z', 'a', 'R')}, 's', 'A', 'R', '_'], False),
        ('TM', 'a transition writes a symbol outside the tape alphabet', base + [dict(td) | {('s', 'x'): ('s', 'y', 'R')}, 's', 'A', 'R', '_'], False),
        ('TM', 'a transition moves in a direction other than L and R', base + [dict(td) | {('s', 'x'): ('s', 'x', 'S')}, 's', 'A', 'R', '_'], False),
    ]
    return C


_FIELDS = {'DFA': ['Q', 'Sigma', 'delta', 'q0', 'F'], 'NFA': ['Q', 'Sigma', 'delta', 'q0', 'F', 'epsilon'], 'PDA': ['Q', 'Sigma', 'Gamma', 'delta', 'q0', 'F', 'epsilon'],
           'TM': ['Q', 'Sigma', 'Gamma', 'delta', 'q0', 'q_accept', 'q_reject', 'blank']}
_CLASS_HOME = {'DFA': 'dfa.DFA', 'NFA': 'nfa.NFA', 'PDA': 'pda.PDA', 'TM': 'tm.TM'}


def check_class_invariants(ctx, rep, rule=RULE + '.M40'):
    """the constructors of DFA, NFA, PDA and TM on model arguments: an object that violates exactly one invariant of the formal
    definition is refused with an AssertionError, and valid objects -- among them automata whose states are named after sets and
    pairs of states, as the library's own constructions name them -- are accepted."""
    import copy
    n_ok = 0
    for cname, spec in _CLASS_HOME.items():
        cls = ctx.prog.cls(spec)
        f = ctx.prog.find_method(cls, '_check_validity') or ctx.prog.find_method(cls, '__init__')
        cases = 0
        bad = False
        try:
            for k, what, args, valid in _invariant_cases():
                if k != cname:
                    continue
                for order in ('asc', 'desc'):
                    it = _interp(ctx, order)
                    try:
                        given = copy.deepcopy(args)
                        o = it.instantiate(cls, given, {})
                        raised = None
                        if valid:
                            # the object holds what it was given (a constructor that edits its arguments builds another automaton)
                            for fname, val in zip(_FIELDS[cname], args):
                                got = o._f.get(fname, '<absent>')
                                if (dict(got) if isinstance(val, dict) and isinstance(got, dict) else got) != val:
                                    rep.violates(rule, f, 'class ' + cname, 'the constructor stores {} = {} although it was given {} ({})'.format(fname, _show(got), _show(val), what))
                                    bad = True
                                    break
                            if bad:
                                break
                    except Raised as ex:
                        if ex.name != 'AssertionError' and not getattr(ex, 'certain', False):
                            raise Unsupported('the evaluator met a {} it cannot attribute to the code'.format(ex.name))
                        raised = ex
                    cases += 1
                    if valid and raised is not None:
                        rep.violates(rule, f, 'class ' + cname, 'the constructor refuses a valid {} ({}): {}'.format(cname, what, raised.name))
                        bad = True
                        break
                    if not valid and raised is None:
                        rep.violates(rule, f, 'class ' + cname, 'the constructor accepts a {} that violates an invariant of the definition: {}'.format(cname, what))
                        bad = True
                        break
                if bad:
                    break
        except (Unsupported, RecursionError) as e:
            rep.undecided(rule, f, 'class ' + cname, 'outside the evaluator: {}'.format(e))
            continue
        if not bad:
            rep.holds(rule, f, 'class ' + cname, 'on {} constructions (two iteration orders of sets) every object violating exactly one invariant of the definition is refused and the valid objects, among them automata with states named after sets and pairs, are accepted'.format(cases))
            n_ok += 1
    return n_ok
