"""Per-property texts for MANIFEST.json (level, trusted base, technique)."""

_COMMON_NOTE = ('Trusted: CPython ast, the gtverif engine and the rule tables written from properties.jsonl / doc/main.tex. '
                'Assumes asserts enabled and single-character symbols. ')


def _t(level, technique, note=''):
    return {'level': 'Structural necessary conditions decided exactly by custom static analysis for all inputs; the behaviour itself is not decided. ' + level
            + ' On the call-graph closure of the operations analysed, additionally: no cross-call memo (R-STATE c), identity-bearing encodings injective -- names of composite states, __eq__, look-up and memo keys, input word unmodified (R-INJ), declared NewType sorts State/Symbol/Direction respected (R-SORT), class invariants of the automata constructed or taken as operands asserted in canonical form and nothing demanded of the value of a state or symbol (R-BUILD.inv), operands untouched by every function reached without passing through a procedure (R-EFFECT a), epsilon fresh for the alphabet / forwarded to callees / never appended to words (R-EPS const, default, word).',
            'technique': technique + ' + nominal sort check of the NewTypes + injectivity algebra for identity encodings, both on the call-graph closure; small case-splitting functions decided by exhaustive case analysis with the analyser\'s own finite-model evaluator over the syntax tree (no repository code is imported or run)', 'note': _COMMON_NOTE + note}


TEXT = {
    'C01': _t('Decides: epsilon_closure is a complete saturation (nothing dropped, exits only on empty worklist), partial-map reads are guarded, operands untouched. Not decided: equality with the textbook relation.',
              'AST worklist-discipline rule on CFG guards + alias/effect summaries'),
    'C02': _t('Decides: for n = 0..4 the word lengths that can reach the result of each enumerator are exactly 0..n (upper bound and level coverage, including n = 0 and n = 1); induction step per constructor for the regular-expression enumerator; kind dispatch and sibling tables; same TM budget / PDA limit on both sides; closedness and CNF typestates inside the enumerators; the TM step (M6) and the PDA stack step (M9, finite model) the enumerators run; only alphabet symbols are appended to words (R-EPS.word). Not decided: nothing-missing / nothing-extra relative to the acceptance tests.',
              'abstract interpretation of the enumerator bodies over word lengths (own interpreter in the analyser, concrete n) + dispatch-table and typestate rules'),
    'C03': _t('Decides: subset worklist enqueues exactly unseen subsets, operand untouched, guarded reads. Not decided: language equivalence.',
              'AST worklist-discipline rule + alias/effect summaries'),
    'C04': _t('Decides: the three refinement loops stop only at a stable partition and register every change; input DFA untouched. Block representatives: a state joins / a block is named after a comparison with a representative of that same block. Not decided: that the partition is Myhill-Nerode, equivalence, order independence of the language.',
              'flag/snapshot fixpoint must-pass-through on the CFG + effect summaries'),
    'C05': _t('Decides exactly: every rewrite path of regexp_simplify is a Kleene-algebra identity, does not grow the term and is applied bottom-up. Decides: matcher split ranges / base cases / star recursion, exhaustive dispatch, no memo. The parse-tree visitors of both syntaxes build the constructor of each alternative; rewrites done while parsing are Kleene-algebra identities. Not decided: that the recursive matcher equals the denotation beyond those facts.',
              'rewrite rules extracted from the if-chains and decided as Kleene-algebra identities by a derivative-based equivalence procedure in the analyser'),
    'C06': _t('Decides: state names of a translation come from one private generator or a provider whose universe covers the set joined; GNFA start/accept are fresh; the building blocks pass the epsilon their keys use and translate operand epsilons; operands untouched. Not decided: language equality for all expressions and elimination orders.',
              'provenance + universe-coverage rule for introduced names, epsilon def-use agreement, alias/effect summaries'),
    'C07': _t('Decides: the CYK loop-nest schedule for every n <= 12 (each cell written after the cells it reads, reads exactly the splits), diagonal seeding and pair order; CNF typestate of the grammar at every use and CYK call; empty-word guard; CNF recogniser truth tables; the structural conditions of the on-the-fly Chomsky conversion (saturated fixed points, phase order, fresh variables registered in V). Not decided: that a cell holds exactly the deriving variables (a semantic fixed point) -- the thinnest claim of the twenty.',
              'index arithmetic of the loop nest extracted and evaluated in the analyser for n <= 12 + forward must-dataflow for the CNF typestate'),
    'C08': _t('Decides: six pure/in-place twins are paired correctly, input grammar untouched, nullable/unit closures saturated. The nullable fixpoint is recognised in flag form and in size-snapshot form (snapshot before the growing pass). Not decided: language preservation per phase.',
              'twin-pairing rule (dominance) + effect summaries + fixpoint discipline'),
    'C09': _t('Decides: bounded closure worklist discipline: limit read at call time, counter once per pop, >= limit pops, each configuration enqueued once; guard and action of the stack step on a finite model of symbols and stacks (M9). Not decided: soundness/completeness of the whole search.',
              'worklist exit-condition rule + def-use of the limit'),
    'C10': _t('Decides: twins of the normal forms deep-copy and call the in-place sibling; pda_to_cfg does not touch its argument. Not decided: language equality.',
              'twin-pairing rule + effect summaries'),
    'C11': _t('Decides: head sign (left clamped at 0), missing-transition default, blank extension; verdict loop and trace loop agree; step precondition at every call incl. the first; verdicts only on halting states; same budget. Counter model of both loops: budgets 0..3 x (never halts | accepts/rejects after 0..3 steps) x word length 0/2: steps = min(j,k), no step in a halting state, right verdict, trace length, initial tape. Not decided: step-by-step agreement with delta.',
              'extracted head-update model evaluated in the analyser + must-hold dataflow for the step precondition + sibling skeleton comparison'),
    'C12': _t('Decides: K1 no recorded feedback is dropped, K2 OK exclusivity, K3 handlers report, K4 answer/reference roles and message polarity, K5 minimal counterexample, K6 same bound, K7 state-limit polarity. K6 also: a bounded comparison called without its bound while the checker has one; K8: answer rows compared position-wise need a row-count comparison; builder state sets are images of the declared ones; the word-list reader yields no token for an empty list; the TM step and PDA stack step with which the languages of submitted machines are computed. Not decided: completeness of each structural criterion.',
              'CFG reachability/kill analysis of feedback accumulators + role taint from notebook templates + extracted integer model'),
    'C13': _t('Decides: along each chain tag -> generator -> printer -> template variable -> checker parameter -> parser, commands/arity resolve, printed keywords, state-name formats (regular-language inclusion), operator tokens, symbol class and CFG epsilon spelling are inside what the reader accepts. Also: reserved words of each parser have a consumer in its builder; an empty final declaration is accepted (effective default); line-reader delimiters cannot occur in labels; builder state sets are images of the declared ones; visitors build the constructor of each alternative (finite-shape evaluation, Kleene-algebra identities); the structural demands of the reverse checker are met by dfa_reverse on every path. Not decided: that the semantic criterion accepts the generated object.',
              'template/command table cross-check + regular-language inclusion between writer formats and reader regexes (decided on automata in the analyser)'),
    'C14': _t('Decides: totalisation twin, reachability search discipline, operands untouched / not shared. Not decided: language identities of the constructions.',
              'twin rule + level-synchronous search rule + effect summaries'),
    'C15': _t('Decides: epsilon-path searches terminate and write each backpointer once (acyclic predecessor map). Not decided: legality of each row, derivation order.',
              'worklist first-visit / backpointer rule on CFG guards'),
    'C16': _t('Decides: keyword agreement, label layout roles/arity/regex length, operator tokens and precedence order vs grammar alternatives, symbol class vs IDENTIFIER, CFG epsilon spelling, generated parser tables vs .g4, declared-vs-empty. Also: reserved words of each parser have a consumer in its builder, an empty final declaration is accepted, line-reader delimiters cannot occur in labels, builder state sets are images of the declared ones, visitors build the constructor of each alternative. Not decided: field-by-field equality of the re-parsed object.',
              'writer/reader table agreement + regex inclusion + grammar cross-check'),
    'C17': _t('Decides: must-pass-through of every builder check before construction, guard polarity of each check, duplicate-check dominance of every keyword store, validating constructors, invariant atoms, declared-vs-empty, label decoding roles. Also: reserved words have consumers, effective check_non_empty per declaration, line-reader delimiters vs label languages, Q and F handed to the constructor are element-wise images of the declared sets. Not decided: that every ill-formed text is rejected.',
              'CFG dominance / must-pass-through + guard-polarity extraction + sibling agreement of the four builders'),
    'C18': _t('Decides: operands of union/concatenation/star are not mutated at any depth. Not decided: the language identities.',
              'alias/effect summaries'),
    'C19': _t('Decides: no value-returning operation mutates an operand at any depth; no result shares an in-place-mutable field with an argument; no hidden defaultdict insertion; twin pairing; no unconditional self-recursion. Not decided: language equality across iteration orders.',
              'whole-package alias/effect analysis (access paths, summaries to fixpoint)'),
    'C20': _t('Decides: both isomorphism explorations terminate and enqueue exactly unseen pairs. Not decided: that a passing exploration decides isomorphism.',
              'worklist first-visit rule'),
}

NOT_APPLICABLE = {}
