"""Analysis context shared by the rules of one run."""
from .astutil import FuncFacts
from .types import Typer


class Ctx:
    def __init__(self, prog):
        self.prog = prog
        self.typer = Typer(prog)
        self._facts = {}
        self._effects = None

    def facts(self, f) -> FuncFacts:
        k = f.qualname
        if k not in self._facts:
            self._facts[k] = FuncFacts(f)
        return self._facts[k]

    def env(self, f):
        return self.typer.env(f)

    @property
    def effects(self):
        if self._effects is None:
            from .effects import Effects
            self._effects = Effects(self)
        return self._effects

    def resolve_call(self, f, call):
        return self.prog.resolve_call(f, f.module, call, self.env(f))

    def callee(self, f, call):
        """FuncInfo of the callee if it resolves to a repository function, else None."""
        r = self.resolve_call(f, call)
        if r is not None and r.kind == 'func':
            return r.target
        return None

    def callee_name(self, f, call):
        r = self.resolve_call(f, call)
        if r is None:
            return None
        if r.kind == 'func':
            return r.target.name
        if r.kind == 'class':
            return r.target.name
        if r.kind in ('builtin', 'external'):
            return r.name
        if r.kind == 'method':
            return '.' + r.name
        return r.name
