"""Property -> clauses -> rule instances.  Each check_Cxx fills a Report; it never prints."""
import ast

from .model import AnalysisError
from .rules import twin, effect, work, feedback, models, misc, state, fresh, pda_rules, build, dispatch, io as iorules, closed, ka_rules, cyk, bound, order, visitor, small_models, small_models2, small_models3

ALG = ['dfa_algorithms', 'nfa_algorithms', 'pda_algorithms', 'tm_algorithms', 'cfg_algorithms', 'regexp_algorithms']


def F(ctx, *specs):
    return [ctx.prog.func(s) for s in specs]


def _alg_funcs(ctx, mods=ALG):
    out = []
    for b in mods:
        out += ctx.prog.funcs_of(b)
    return out


def _worklists_in(ctx, rep, specs):
    fs = F(ctx, *specs)
    n = work.check_worklists(ctx, rep, fs)
    if n < len(specs):
        raise AnalysisError('worklist loop(s) vanished: expected one in each of {}, found {}'.format(specs, n))


def _effect_on(ctx, rep, specs, shared=True):
    fs = F(ctx, *specs)
    effect.check_no_operand_mutation(ctx, rep, fs)
    if shared:
        effect.check_no_shared_result(ctx, rep, fs)


def _twins(ctx, rep, names):
    pairs = {p.name: (p, i) for p, i in twin.twin_pairs(ctx)}
    for n in names:
        if n not in pairs:
            raise AnalysisError('twin pair {} / {}_in_place vanished'.format(n, n))
        twin.check_twin(ctx, rep, *pairs[n])
    # the pure twins rely on copy.deepcopy: a class that supplies its own __deepcopy__ / __copy__ must not share state
    operand_classes = set()
    for n in names:
        for p0 in pairs[n][0].pos_params:
            if p0.annotation is not None and isinstance(p0.annotation, (ast.Name, ast.Attribute)):
                r0 = ctx.prog.resolve_expr(pairs[n][0], pairs[n][0].module, p0.annotation)
                if r0 is not None and r0.kind == 'class':
                    operand_classes.add(r0.target.qualname)
    hooks = [f for f in ctx.prog.functions.values() if f.cls is not None and f.name in ('__deepcopy__', '__copy__') and f.cls.qualname in operand_classes]
    if hooks:
        effect.check_no_shared_result(ctx, rep, hooks)


# -------------------------------------------------------------------------------------------------------

def _closed(ctx, rep, specs, floor):
    cache = closed.cache_summary(ctx, rep, ctx.prog.func('nfa_algorithms._nfa_cache')) if any(sp.startswith('nfa_algorithms') for sp in specs) else None
    n = 0
    for sp in specs:
        n += closed.check_function(ctx, rep, ctx.prog.func(sp), cache)
    if n < floor:
        raise AnalysisError('fewer than {} closure requirement sites found in {}'.format(floor, specs))


ACCEPTANCE = ['dfa_algorithms.dfa_accepts_word', 'nfa_algorithms.nfa_accepts_word', 'nfa_algorithms.epsilon_closure', 'nfa_algorithms._nfa_cache',
              'pda_algorithms.pda_accepts_word', 'pda_algorithms.pda_epsilon_closure', 'pda_algorithms.pda_do_transition', 'tm_algorithms.tm_accepts_word',
              'cfg_algorithms.cfg_accepts_word', 'cfg_algorithms.cfg_cyk_matrix', 'regexp_algorithms.regexp_accepts_word']
CHOICE_FUNCS = ['dfa_algorithms.dfa_minimize', 'dfa_algorithms.dfa_from_table', 'dfa_algorithms.dfa_quotient', 'dfa_algorithms.dfa_hopfcroft',
                'regexp_algorithms.gnfa_minimize', 'cfg_algorithms.cfg_eliminate_unit_rules_in_place', 'nfa_algorithms.nfa_find_epsilon_path',
                'pda_algorithms.pda_find_epsilon_path', 'dfa_algorithms.dfa_isomorphic', 'dfa_algorithms.dfa_isomorphic1', 'nfa_algorithms.nfa_to_dfa']


def check_C01(ctx, rep):
    small_models3.check_class_invariants(ctx, rep)
    rep.clauses_decided.append('the constructors of DFA, NFA, PDA and TM refuse every model object that violates exactly one invariant of the formal definition and accept the valid ones, among them automata whose states are named after sets and pairs (M40, finite model)')
    small_models2.check_nfa_acceptance(ctx, rep, ctx.prog.func('nfa_algorithms.nfa_accepts_word'), ctx.prog.func('nfa_algorithms.epsilon_closure'))
    rep.clauses_decided.append('nfa_accepts_word answers as the definition on 13 model NFAs (epsilon cycles of length 3 with an exit, partial relations, an empty target set, no final state, nondeterminism, a second epsilon symbol) and all words up to length 4, epsilon_closure of every state and of a pair is the set reachable by epsilon moves, under two iteration orders of sets; operand untouched (M19, finite model)')
    rep.clauses_decided += ['epsilon_closure is a saturation that drops nothing and stops only on an empty worklist (R-WORK W1/W2/W4)',
                            'reads of a partial NFA transition map are guarded (R-EFFECT c)',
                            'acceptance routines do not mutate their operands (R-EFFECT a)',
                            'every acceptance decision, symbol step and cache entry of nfa_accepts_word works on epsilon-closed sets; the cache summary is derived from its body (R-CLOSED)',
                            'class invariants asserted (R-BUILD)', 'no cross-call memo (R-STATE c)']
    rep.not_decided += ['that the fold over delta and the set stepping compute the textbook relation for every automaton and word']
    _worklists_in(ctx, rep, ['nfa_algorithms.epsilon_closure'])
    fs = F(ctx, 'dfa_algorithms.dfa_accepts_word', 'nfa_algorithms.epsilon_closure', 'nfa_algorithms._nfa_cache',
           'nfa_algorithms.nfa_accepts_word', 'nfa.NFA.E')
    effect.check_no_operand_mutation(ctx, rep, fs)
    n = effect.check_guarded_reads(ctx, rep, [f for f in _alg_funcs(ctx, ['nfa_algorithms']) if not f.name.endswith('_in_place')])
    if n < 1:
        raise AnalysisError('no NFA transition-map read found')
    _closed(ctx, rep, ['nfa_algorithms.nfa_accepts_word'], 1)
    order.check_independence(ctx, rep, F(ctx, 'dfa_algorithms.dfa_accepts_word', 'nfa_algorithms.nfa_accepts_word', 'nfa_algorithms.epsilon_closure', 'nfa_algorithms._nfa_cache'))
    state.check_hidden_state(ctx, rep, modules=['nfa_algorithms', 'dfa_algorithms'])
    build.check_invariants(ctx, rep)


ENUMERATORS = ['dfa_algorithms.dfa_words_up_to_n', 'nfa_algorithms.nfa_words_up_to_n', 'pda_algorithms.pda_words_up_to_n',
               'tm_algorithms.tm_words_up_to_n', 'cfg_algorithms.cfg_words_up_to_n', 'language_algorithms.words_up_to_n']


def check_C02(ctx, rep):
    small_models2.check_chomsky_phases(ctx, rep, [ctx.prog.func('cfg_algorithms.' + n0) for n0 in small_models2._PHASES])
    rep.clauses_decided.append('the conversion through which the enumerator of a general grammar goes keeps the words up to length 3 and the declared variables on twelve model grammars, one of them with 26 variables (M28, finite model)')
    small_models2.check_enumerators(ctx, rep, ctx.prog.func('dfa_algorithms.dfa_words_up_to_n'), ctx.prog.func('nfa_algorithms.nfa_words_up_to_n'), ctx.prog.func('regexp_algorithms.regexp_words_up_to_n'))
    rep.clauses_decided.append('dfa_words_up_to_n, nfa_words_up_to_n and regexp_words_up_to_n return exactly the accepted / denoted words of length at most n on the model DFAs, NFAs and expressions for n = 0..4 (0..3), n running through 0 and the length of the shortest accepted word (M24, finite model)')
    small_models2.check_cfg_words(ctx, rep, ctx.prog.func('cfg_algorithms.cfg_words_up_to_n'))
    rep.clauses_decided.append('cfg_words_up_to_n returns exactly the words up to length n that the start variable derives on five model grammars in Chomsky normal form for n = 0..4, among them one where a variable other than the leftmost must be expanded (M18, finite model)')
    rep.clauses_decided += ['no enumerated word is longer than n and every level 0..n can be contributed, for n = 0..4 including n = 0 and n = 1 (R-BOUND, abstract interpretation over word lengths)',
                            'regular-expression enumerator: induction step per constructor and well-founded star recursion (R-BOUND.regexp)',
                            'the generic generator sends each kind to its own enumerator; sibling dispatch tables agree (R-DISPATCH b)',
                            'TM budget and PDA limit are the same on the enumeration and acceptance side (R-TM.budget, R-STATE a)',
                            'closedness inside the NFA/PDA enumerators (R-CLOSED); CNF typestate in the grammar enumerator; enumerators do not touch their operands (R-EFFECT)']
    rep.not_decided += ['"nothing missing, nothing extra" relative to the acceptance tests']
    P = ctx.prog.func
    for sp in ENUMERATORS:
        bound.check_enumerator(ctx, rep, P(sp))
    bound.check_regexp_enumerator(ctx, rep, P('regexp_algorithms.regexp_words_up_to_n'))
    if dispatch.check_kind_dispatch(ctx, rep, P('language_generator.generate_language'), '_words_up_to_n') < 6:
        rep.note('generate_language: fewer than six kinds recognised')
    dispatch.check_kind_dispatch(ctx, rep, P('notebook.check_automaton_accepts_rejects.accepts'), '_accepts_word')
    dispatch.check_ext_tables(ctx, rep, [P('notebook.language_parser'), P('make_notebook.parse_language_file')])
    misc.check_tm_budget(ctx, rep, [P('tm_algorithms.tm_accepts_word'), P('tm_algorithms.tm_simulate_word'), P('tm_algorithms.tm_words_up_to_n')], P('tm_algorithms.tm_words_up_to_n'))
    state.check_config_reads(ctx, rep)
    _closed(ctx, rep, ['nfa_algorithms.nfa_words_up_to_n', 'pda_algorithms.pda_words_up_to_n'], 1)
    _worklists_in(ctx, rep, ['nfa_algorithms.epsilon_closure', 'pda_algorithms.pda_epsilon_closure'])
    cyk.check_cnf_use(ctx, rep, P('cfg_algorithms.cfg_words_up_to_n'))
    # the TM enumerator decides membership by running the machine: the single-step function is part of it
    models.check_tm_step(ctx, rep, P('tm_algorithms.tm_do_transition'))
    rep.clauses_decided.append('the single-step function the TM enumerator runs keeps the head on the tape, extends it with blanks and writes before it moves (M6)')
    # ... and the PDA enumerator moves through pda_do_transition, whose stack step is guard + action
    pda_rules.check_stack_step(ctx, rep, P('pda_algorithms.pda_can_pop_push'), P('pda_algorithms.pda_pop_push'))
    _pda_step_models(ctx, rep)
    rep.clauses_decided.append('the stack step the PDA enumerator runs: guard true exactly when u is epsilon or on top, action pops u / pushes v (M9, finite model)')
    state.check_hidden_state(ctx, rep, modules=['dfa_algorithms', 'nfa_algorithms', 'pda_algorithms', 'tm_algorithms', 'cfg_algorithms', 'regexp_algorithms', 'language_algorithms', 'language_generator'])
    _effect_on(ctx, rep, ENUMERATORS + ['regexp_algorithms.regexp_words_up_to_n', 'language_generator.generate_language', 'language_algorithms.words_of_length_n'], shared=False)


def check_C03(ctx, rep):
    small_models2.check_subset_construction(ctx, rep, ctx.prog.func('nfa_algorithms.nfa_to_dfa'))
    rep.clauses_decided.append('nfa_to_dfa returns a valid total DFA over the same alphabet with the same words up to length 4 and only reachable states on 13 model NFAs under two iteration orders of sets; operand untouched (M20, finite model)')
    rep.clauses_decided += ['every subset is epsilon-closed before it is named, tested against F or enqueued (R-CLOSED iii)', 'subset worklist enqueues exactly the unseen subsets (R-WORK W1/W2)', 'operand NFA not mutated, no shared mutable state (R-EFFECT)']
    rep.not_decided += ['language equivalence for all words']
    _worklists_in(ctx, rep, ['nfa_algorithms.nfa_to_dfa', 'nfa_algorithms.epsilon_closure'])
    _effect_on(ctx, rep, ['nfa_algorithms.nfa_to_dfa'])
    # the reads of N.delta that the construction performs, itself or through the step / closure helpers it calls
    reach = state.reachable_functions(ctx, F(ctx, 'nfa_algorithms.nfa_to_dfa'))
    effect.check_guarded_reads(ctx, rep, [g for g in reach.values() if g.module.base == 'nfa_algorithms.py' and not g.name.endswith('_in_place')])
    state.check_hidden_state(ctx, rep, modules=['nfa_algorithms'])
    work.check_marker_alias(ctx, rep, ctx.prog.func('nfa_algorithms.nfa_to_dfa'))
    _closed(ctx, rep, ['nfa_algorithms.nfa_to_dfa'], 1)
    models.check_alphabet_preserved(ctx, rep, F(ctx, 'nfa_algorithms.nfa_to_dfa'))
    rep.clauses_decided.append('the DFA is built over the declared alphabet of the NFA, not over the symbols that happen to label transitions (R-ALPHA)')
    if closed.check_subset_names(ctx, rep, ctx.prog.func('nfa_algorithms.nfa_to_dfa')) < 2:
        raise AnalysisError('fewer than 2 subset naming / enqueue sites in nfa_to_dfa')


def check_C04(ctx, rep):
    # finite models first: a rewritten minimiser that leaves the fragment of the structural rules below is still decided
    for sp0 in ('dfa_algorithms.dfa_minimize', 'dfa_algorithms.dfa_quotient', 'dfa_algorithms.dfa_hopfcroft'):
        small_models2.check_minimiser(ctx, rep, ctx.prog.func(sp0))
    rep.clauses_decided.append('each minimiser, on six model DFAs with every state reachable, returns a valid total DFA over the same alphabet with the same words up to length 5 and exactly the Myhill-Nerode number of states (M13, finite model)')
    rep.clauses_decided += ['placeholder blocks never become states (R-SLOT)', 'refinement loops stop only at a stable partition and every change is registered (R-WORK W5, Hopcroft sub-template)',
                            'input DFA unchanged (R-EFFECT)', 'a state joins / a block is named after a comparison with a representative of that same block (R-WORK.rep)', 'the table of the table-filling minimiser is indexed by the same enumeration of Q where it is filled and where it is read (R-INDEX)']
    rep.not_decided += ['that the stable partition is the Myhill-Nerode partition; equivalence of the result; independence of the language from the choice order']
    if not work.check_flag_fixpoint(ctx, rep, ctx.prog.func('dfa_algorithms.dfa_minimize')):
        raise AnalysisError('table-filling flag loop vanished')
    if not work.check_partition_fixpoint(ctx, rep, ctx.prog.func('dfa_algorithms.dfa_quotient')):
        raise AnalysisError('quotient refinement loop vanished')
    _worklists_in(ctx, rep, ['dfa_algorithms.dfa_hopfcroft'])
    mins = F(ctx, 'dfa_algorithms.dfa_minimize', 'dfa_algorithms.dfa_quotient', 'dfa_algorithms.dfa_hopfcroft')
    if sum(work.check_representatives(ctx, rep, m) for m in mins) < 1:
        raise AnalysisError('no use of a block representative found in the minimisers')
    misc.check_index_agreement(ctx, rep, ctx.prog.func('dfa_algorithms.dfa_minimize'))
    work.check_one_shot_iterators(ctx, rep, mins)
    work.check_consumed_twice(ctx, rep, mins)
    misc.check_minimiser_siblings(ctx, rep, mins)
    order.check_independence(ctx, rep, mins + F(ctx, 'dfa_algorithms.dfa_from_table'), must=False)
    if not misc.check_slots(ctx, rep, ctx.prog.func('dfa_algorithms.dfa_from_table')):
        rep.note('dfa_from_table no longer builds its blocks in a placeholder list (R-SLOT has no instance)')
    _effect_on(ctx, rep, ['dfa_algorithms.dfa_minimize', 'dfa_algorithms.dfa_from_table', 'dfa_algorithms.dfa_quotient', 'dfa_algorithms.dfa_hopfcroft'])


def _fresh_in(ctx, rep, specs, providers=()):
    n = 0
    for sp in providers:
        fresh.check_provider(ctx, rep, ctx.prog.func(sp))
    pnames = {ctx.prog.func(sp).qualname for sp in providers}
    done = set()
    for sp in specs:
        f = ctx.prog.func(sp)
        units = [f] + list(f.nested.values())
        # a helper that draws a name from a provider AND registers it (def add_fresh(G, hint): A = fresh(G, hint); G.V.add(A);
        # return A) is part of the introduction sites of its callers
        for g in list(units):
            for c in ctx.prog.calls_in(g):
                r = ctx.resolve_call(g, c)
                if r is not None and r.kind == 'func' and r.target.qualname not in pnames and r.target.parent is None and r.target.module is f.module \
                        and any((ctx.resolve_call(r.target, c2) is not None and ctx.resolve_call(r.target, c2).kind == 'func' and ctx.resolve_call(r.target, c2).target.qualname in pnames)
                                for c2 in ctx.prog.calls_in(r.target)):
                    if r.target not in units:
                        units.append(r.target)
                    # each call of the registering helper is an introduction site of its own (decided inside the helper)
                    rep.holds('R-FRESH.site', g, c, 'the name is drawn and registered by the helper {} (its own site is decided separately)'.format(r.target.name), nontrivial=False)
                    n += 1
        for g in units:
            if g.qualname in done:
                continue
            done.add(g.qualname)
            n += fresh.check_introductions(ctx, rep, g)
        fresh.check_request_order(ctx, rep, f)
    return n


def _eps_in(ctx, rep, specs):
    n = 0
    for sp in specs:
        f = ctx.prog.func(sp)
        n += fresh.check_eps(ctx, rep, f)
    return n


def _simplifier(ctx, rep):
    """the simplifier is decided by finite-shape evaluation (all trees of depth <= 3); only when its body leaves the
    evaluator's fragment, by the symbolic case analysis of its rewrite paths"""
    f = ctx.prog.func('regexp_algorithms.regexp_simplify')
    if ka_rules.check_simplify_shapes(ctx, rep, f) is None:
        if ka_rules.check_simplify(ctx, rep, f) < 40:
            raise AnalysisError('fewer than 40 class cases evaluated for regexp_simplify')


def check_C05(ctx, rep):
    small_models3.check_simplify_models(ctx, rep)
    rep.clauses_decided.append('regexp_simplify keeps the words up to length 3 on 47 model expressions, twelve of them over the letters 0 and 1 whose printed form coincides with the constants (M38, finite model)')
    small_models2.check_regexp_matcher(ctx, rep, ctx.prog.func('regexp_algorithms.regexp_accepts_word'))
    rep.clauses_decided.append('regexp_accepts_word answers membership in the denoted language on 47 model expressions (nested stars, stars over expressions matching the empty word, concatenations with an empty-matching side, splits whose first match is a dead end) and all words over {a, b} up to length 3 (M22, finite model)')
    rep.clauses_decided += ['every rewrite path of regexp_simplify is a Kleene-algebra identity, never grows the expression and is applied after simplifying every child (M3, decided exactly)',
                            'matcher: concatenation splits k in [0,|w|], star takes a non-empty prefix and recurses on the same node, base cases, sum (M3m)',
                            'all six constructors handled in every structural recursion over Regexp (R-DISPATCH a)',
                            'the parse-tree visitors of both syntaxes build the constructor of each alternative; rewrites done while parsing are Kleene-algebra identities (R-IO.v)',
                            'no cross-call memo feeds the matcher or the simplifier (R-STATE c); operands untouched (R-EFFECT)']
    rep.not_decided += ['that the recursive matcher equals the denotation beyond those facts']
    P = ctx.prog.func
    _simplifier(ctx, rep)
    ka_rules.check_simplify_spec(ctx, rep, P('regexp_algorithms.regexp_simplify'))
    ka_rules.check_matcher(ctx, rep, P('regexp_algorithms.regexp_accepts_word'))
    if visitor.check_visitors(ctx, rep) < 14:
        raise AnalysisError('fewer than 14 visit methods of the regular-expression visitors found')
    recs = dispatch.regexp_recursions(ctx)
    if len(recs) < 9:
        raise AnalysisError('fewer than 9 structural recursions over Regexp found')
    for f, st in recs:
        dispatch.check_regexp_recursion(ctx, rep, f, st)
    twin.check_no_unconditional_self_call(ctx, rep, [f for f, _ in recs])
    state.check_hidden_state(ctx, rep, modules=['regexp_algorithms', 'regexp'])
    _effect_on(ctx, rep, ['regexp_algorithms.regexp_simplify', 'regexp_algorithms.regexp_accepts_word', 'regexp_algorithms.regexp_size', 'regexp_algorithms.regexp_symbols'], shared=False)


def check_C06(ctx, rep):
    small_models3.check_simplify_models(ctx, rep)
    rep.clauses_decided.append('regexp_simplify keeps the words up to length 3 on 47 model expressions, twelve of them over the letters 0 and 1 whose printed form coincides with the constants (M38, finite model)')
    small_models2.check_regexp_to_nfa(ctx, rep, ctx.prog.func('regexp_algorithms.regexp_to_nfa'))
    small_models2.check_dfa_to_regexp(ctx, rep, ctx.prog.func('regexp_algorithms.dfa_to_regexp'))
    rep.clauses_decided.append('regexp_to_nfa returns a valid NFA with exactly the denoted words up to length 3 on 47 model expressions (M26), dfa_to_regexp an expression with exactly the accepted words up to length 4 (3) on thirteen model DFAs, two with three parallel symbols, under two elimination orders (M27); finite models')
    for fn0, op0 in (('nfa_union', 'union'), ('nfa_concatenation', 'concat'), ('nfa_repetition', 'star')):
        small_models2.check_nfa_operation(ctx, rep, ctx.prog.func('nfa_algorithms.' + fn0), op0)
    rep.clauses_decided.append('nfa_union / nfa_concatenation / nfa_repetition return a valid NFA with exactly the words up to length 4 of the union / concatenation / iteration on model NFAs with several final states that have different ways on, a final initial state, colliding state names and different epsilon symbols; operands untouched (M17, finite model)')
    rep.clauses_decided += ['state names of one translation come from one private generator or a fresh-name provider (R-FRESH)',
                            'GNFA start/accept states are fresh (R-FRESH)', 'epsilon consistency of the building blocks (R-EPS)',
                            'building blocks do not touch their operands (R-EFFECT)',
                            'Iteration/Sum/Concat are translated with star/union/concatenation on the matching children with the private generator passed on (R-DISPATCH a)',
                            'rip step is Kleene-algebra equivalent to R1.R2*.R3 + R4 with the right index roles; parallel DFA edges are summed (M4)',
                            'the simplifier applied to every rip result preserves the language (M3)']
    rep.not_decided += ['language equality for all expressions and all elimination orders']
    n = _fresh_in(ctx, rep, ['regexp_algorithms.dfa_to_gnfa', 'nfa_algorithms.nfa_union', 'nfa_algorithms.nfa_repetition', 'nfa_algorithms.nfa_concatenation',
                             'regexp_algorithms.RegexpToNFAGenerator.generate_symbol', 'regexp_algorithms.RegexpToNFAGenerator.generate_zero',
                             'regexp_algorithms.RegexpToNFAGenerator.generate_one'],
                  providers=['dfa_algorithms.fresh_state', 'nfa_algorithms._fresh_nfa_state'])
    if n < 4:
        raise AnalysisError('fewer than 4 name-introduction sites found for C06')
    fresh.check_generator(ctx, rep)
    _eps_in(ctx, rep, ['nfa_algorithms.nfa_union', 'nfa_algorithms.nfa_repetition', 'nfa_algorithms.nfa_concatenation',
                       'regexp_algorithms.RegexpToNFAGenerator.generate_symbol', 'regexp_algorithms.RegexpToNFAGenerator.generate_zero',
                       'regexp_algorithms.RegexpToNFAGenerator.generate_one'])
    fresh.check_eps_translation(ctx, rep, ctx.prog.func('nfa_algorithms._add_nfa_transitions'))
    dispatch.check_generator_mapping(ctx, rep, ctx.prog.func('regexp_algorithms.RegexpToNFAGenerator.generate'))
    if not ka_rules.check_rip_model(ctx, rep, ctx.prog.func('regexp_algorithms.gnfa_minimize')):
        ka_rules.check_rip_step(ctx, rep, ctx.prog.func('regexp_algorithms.gnfa_minimize'))
    if not ka_rules.check_gnfa_edges_model(ctx, rep, ctx.prog.func('regexp_algorithms.dfa_to_gnfa')):
        ka_rules.check_gnfa_edges(ctx, rep, ctx.prog.func('regexp_algorithms.dfa_to_gnfa'))
    _simplifier(ctx, rep)
    state.check_hidden_state(ctx, rep, modules=['regexp_algorithms', 'nfa_algorithms'])
    for f, st in dispatch.regexp_recursions(ctx):
        if f.name in ('generate', 'regexp_simplify'):
            dispatch.check_regexp_recursion(ctx, rep, f, st)
    _effect_on(ctx, rep, ['regexp_algorithms.regexp_to_nfa', 'regexp_algorithms.dfa_to_gnfa', 'regexp_algorithms.dfa_to_regexp',
                          'nfa_algorithms.nfa_union', 'nfa_algorithms.nfa_repetition', 'nfa_algorithms.nfa_concatenation'])


def check_C07(ctx, rep):
    small_models3.check_is_chomsky(ctx, rep)
    rep.clauses_decided.append('CFG.is_chomsky answers True exactly for the grammars in Chomsky normal form on 18 model grammars: right-hand sides of every shape up to length four, the offending rule first / in the middle / last, epsilon rules of other variables before and after the one of the start variable, the start variable on a right-hand side (M37, finite model)')
    small_models2.check_cfg_membership(ctx, rep, ctx.prog.func('cfg_algorithms.cfg_accepts_word'))
    rep.clauses_decided.append('cfg_accepts_word answers True exactly when the start variable derives the word on eleven general model grammars (epsilon rules, nullable chains, unit cycles, long right-hand sides) and all words up to length 3, the on-the-fly conversion included; the grammar handed in is untouched (M32, finite model)')
    small_models2.check_chomsky_phases(ctx, rep, [ctx.prog.func('cfg_algorithms.' + n0) for n0 in small_models2._PHASES])
    rep.clauses_decided.append('the five phases of the Chomsky conversion, applied in order to twelve model grammars (epsilon rules, nullable chains, unit cycles, long right-hand sides, terminals inside them) under two iteration orders of sets, each keep the words up to length 3 and the declared variables, and the final grammar is in Chomsky normal form (M28, finite model)')
    small_models2.check_cyk(ctx, rep, ctx.prog.func('cfg_algorithms.cfg_cyk_matrix'), ctx.prog.func('cfg_algorithms.cfg_accepts_word'))
    rep.clauses_decided.append('on five model grammars in Chomsky normal form and all words up to length 4 (3) every CYK cell holds exactly the variables that derive the subword and the membership test agrees with derivability (M23, finite model)')
    small_models2.check_unit_elimination(ctx, rep, ctx.prog.func('cfg_algorithms.cfg_eliminate_unit_rules_in_place'))
    rep.clauses_decided.append('cfg_eliminate_unit_rules_in_place, on six model grammars (unit cycles with an exit, a start variable that only reaches unit rules, a self-loop) under two iteration orders of the variable set, leaves no unit rule and keeps the words up to length 3 (M16, finite model)')
    small_models2.check_nullable(ctx, rep, ctx.prog.func('cfg_algorithms.cfg_nullable_variables'))
    rep.clauses_decided.append('cfg_nullable_variables (run by the on-the-fly Chomsky conversion of the membership test) returns the least fixpoint of the definition on seven model grammars (M15, finite model)')
    rep.clauses_decided += ['CYK schedule: for n <= 12 every cell is written after the cells it reads and reads exactly the splits of its span (M7)',
                            'diagonal seeding and pair order of the combination step (M7)',
                            'the on-the-fly conversion precedes every use of the rules / start variable and every CYK call (CNF typestate)',
                            'every caller of the CYK routines establishes CNF or reports the error; the empty word never indexes the table',
                            'CNF recogniser atoms; right-hand sides unpacked under a length test (R-ARITY)']
    rep.not_decided += ['that a cell holds exactly the deriving variables (a semantic fixed point)']
    P = ctx.prog.func
    if cyk.check_cyk_schedule(ctx, rep, P('cfg_algorithms.cfg_cyk_matrix')) < 12:
        rep.note('CYK schedule not evaluated for all n <= 12')
    if cyk.check_cnf_use(ctx, rep, P('cfg_algorithms.cfg_accepts_word')) < 1:
        raise AnalysisError('no use of the converted grammar found in cfg_accepts_word')
    if cyk.check_cyk_callers(ctx, rep) < 4:
        raise AnalysisError('fewer than 4 callers of the CYK routines found')
    cyk.check_empty_word_guard(ctx, rep, P('cfg_algorithms.cfg_accepts_word'))
    check_chomsky_recogniser(ctx, rep)
    misc.check_arity(ctx, rep, P('cfg_algorithms.cfg_derive_word'))
    # for a grammar that is not in CNF the membership test is CYK on the converted grammar
    _conversion_kernel(ctx, rep)
    rep.clauses_decided.append('the conversion the membership test runs first saturates its fixed points, orders its phases, and introduces only fresh variables that it registers in V -- CYK considers members of V only (R-WORK W5, R-PHASE, R-FRESH)')
    _effect_on(ctx, rep, ['cfg_algorithms.cfg_cyk_matrix', 'cfg_algorithms.cfg_accepts_word', 'cfg.CFG.is_chomsky', 'cfg.Alternative.is_chomsky'], shared=False)


def check_chomsky_recogniser(ctx, rep):
    """Alternative.is_chomsky / CFG.is_chomsky contain the three right-hand-side shapes, 'S not on a right-hand side' and
    'epsilon only for S' as atoms"""
    import ast as _ast
    from .astutil import u as _u
    cyk.check_alternative_recogniser(ctx, rep)
    cyk.check_grammar_recogniser(ctx, rep)


def _conversion_kernel(ctx, rep):
    """structural conditions of the Chomsky conversion; used by C08 itself and by the properties whose operations convert
    on the fly (CYK membership, the grammar enumerator): the fixed points are saturated, the phases run in the order that
    establishes their preconditions, every introduced variable is fresh and registered in V"""
    nf = ctx.prog.func('cfg_algorithms.cfg_nullable_variables')
    if not (work.check_flag_fixpoint(ctx, rep, nf) + work.check_size_fixpoint(ctx, rep, nf)):
        raise AnalysisError('nullable fixpoint loop vanished')
    df = ctx.prog.func('cfg_algorithms.cfg_derivable_variables')
    if not (work.check_snapshot_fixpoint(ctx, rep, df) or work.check_flag_fixpoint(ctx, rep, df) + work.check_size_fixpoint(ctx, rep, df)):
        # ... or a worklist search over the unit successors
        if not work.check_worklists(ctx, rep, [df], kinds=('search',)):
            raise AnalysisError('unit-closure fixpoint loop vanished')
    n = _fresh_in(ctx, rep, ['cfg_algorithms.cfg_add_new_start_variable_in_place', 'cfg_algorithms.cfg_make_rules_of_length_two_in_place',
                             'cfg_algorithms.cfg_eliminate_terminals_in_place'], providers=['cfg_algorithms.cfg_fresh_variable'])
    if n < 3:
        raise AnalysisError('fewer than 3 variable-introduction sites found in the Chomsky conversion')
    fresh.check_universe_monotone(ctx, rep, F(ctx, 'cfg_algorithms.cfg_to_chomsky_in_place', 'cfg_algorithms.cfg_add_new_start_variable_in_place', 'cfg_algorithms.cfg_remove_epsilon_rules_in_place',
                                              'cfg_algorithms.cfg_eliminate_unit_rules_in_place', 'cfg_algorithms.cfg_make_rules_of_length_two_in_place', 'cfg_algorithms.cfg_eliminate_terminals_in_place'))
    P = ctx.prog.func
    pda_rules.check_phase_order(ctx, rep, P('cfg_algorithms.cfg_to_chomsky_in_place'), P('notebook_chomsky.cfg_apply_chomsky'), P('notebook_chomsky.cfg_check_chomsky'))


def check_C08(ctx, rep):
    small_models2.check_cfg_membership(ctx, rep, ctx.prog.func('cfg_algorithms.cfg_accepts_word'))
    rep.clauses_decided.append('the whole conversion cfg_to_chomsky, as cfg_accepts_word applies it on the fly, yields a grammar the CYK recogniser accepts as Chomsky normal form and with the same words up to length 3 on eleven general model grammars, among them one with the empty language (M32, finite model)')
    small_models3.check_is_chomsky(ctx, rep)
    rep.clauses_decided.append('CFG.is_chomsky answers True exactly for the grammars in Chomsky normal form on 18 model grammars: right-hand sides of every shape up to length four, the offending rule first / in the middle / last, epsilon rules of other variables before and after the one of the start variable, the start variable on a right-hand side (M37, finite model)')
    small_models2.check_chomsky_phases(ctx, rep, [ctx.prog.func('cfg_algorithms.' + n0) for n0 in small_models2._PHASES])
    rep.clauses_decided.append('the five phases of the Chomsky conversion, applied in order to twelve model grammars (epsilon rules, nullable chains, unit cycles, long right-hand sides, terminals inside them) under two iteration orders of sets, each keep the words up to length 3 and the declared variables, and the final grammar is in Chomsky normal form (M28, finite model)')
    small_models2.check_unit_elimination(ctx, rep, ctx.prog.func('cfg_algorithms.cfg_eliminate_unit_rules_in_place'))
    rep.clauses_decided.append('cfg_eliminate_unit_rules_in_place, on six model grammars (unit cycles with an exit, a start variable that only reaches unit rules, a self-loop) under two iteration orders of the variable set, leaves no unit rule and keeps the words up to length 3 (M16, finite model)')
    small_models2.check_nullable(ctx, rep, ctx.prog.func('cfg_algorithms.cfg_nullable_variables'))
    rep.clauses_decided.append('cfg_nullable_variables returns the least fixpoint of the definition on seven model grammars (M15, finite model)')
    rep.clauses_decided += ['pure twins deep-copy, call the in-place phase and return the copy (R-TWIN)', 'input grammar untouched (R-EFFECT)',
                            'nullable and unit-closure sets are saturated (R-WORK W5)',
                            'the five phases run in the same order in the pipeline, the phase selector and the postcondition table (R-PHASE)',
                            'every introduced variable comes from the provider, is added to V before the next request, and the provider returns only names outside V on every path (R-FRESH)']
    rep.not_decided += ['language preservation and postcondition establishment of each phase']
    _twins(ctx, rep, ['cfg_to_chomsky', 'cfg_remove_epsilon_rules', 'cfg_eliminate_unit_rules', 'cfg_add_new_start_variable',
                      'cfg_make_rules_of_length_two', 'cfg_eliminate_terminals'])
    _conversion_kernel(ctx, rep)
    _effect_on(ctx, rep, ['cfg_algorithms.cfg_to_chomsky', 'cfg_algorithms.cfg_remove_epsilon_rules', 'cfg_algorithms.cfg_eliminate_unit_rules',
                          'cfg_algorithms.cfg_add_new_start_variable', 'cfg_algorithms.cfg_make_rules_of_length_two',
                          'cfg_algorithms.cfg_eliminate_terminals', 'cfg_algorithms.cfg_nullable_variables', 'cfg_algorithms.cfg_derivable_variables',
                          'cfg_algorithms.expand_nullable_variables', 'cfg_algorithms.cfg_fresh_variable', 'notebook_chomsky.cfg_apply_chomsky'])


def check_C09(ctx, rep):
    small_models2.check_pda_acceptance(ctx, rep, ctx.prog.func('pda_algorithms.pda_accepts_word'))
    rep.clauses_decided.append('pda_accepts_word answers True exactly when an accepting computation exists on six model PDAs with small epsilon closures (push, pop, replace, stack-neutral moves, a push and a pop on the same letter) and all words up to length 4 resp. 3 (M25, finite model)')
    rep.clauses_decided += ['closure worklist records and enqueues each configuration once, limit read at call time, at least `limit` pops allowed (R-WORK W1/W2/W4)',
                            'every pda_pop_push is dominated by pda_can_pop_push on the same arguments (guard pairing)',
                            'the guard is true exactly when u is epsilon or on top of the stack, and the action pops u / pushes v, on a finite model of symbols and stacks (M9)',
                            'closure / step alternation and final test on a closed set (R-CLOSED)']
    rep.not_decided += ['soundness and completeness of the configuration search as a whole']
    _pda_step_models(ctx, rep)      # first: a rewritten step that leaves the fragment of the structural rules is still decided
    _worklists_in(ctx, rep, ['pda_algorithms.pda_epsilon_closure'])
    if state.check_config_reads(ctx, rep) < 1:
        raise AnalysisError('no read of a GambaTools setting found')
    if pda_rules.check_pop_push_guard(ctx, rep, ctx.prog.funcs_of('pda_algorithms')) < 4:
        raise AnalysisError('fewer than 4 pda_pop_push call sites found')
    if pda_rules.check_stack_step(ctx, rep, ctx.prog.func('pda_algorithms.pda_can_pop_push'), ctx.prog.func('pda_algorithms.pda_pop_push')) < 2:
        rep.note('stack step outside the finite model')
    _closed(ctx, rep, ['pda_algorithms.pda_accepts_word'], 1)
    _effect_on(ctx, rep, ['pda_algorithms.pda_epsilon_closure', 'pda_algorithms.pda_do_transition', 'pda_algorithms.pda_accepts_word',
                          'pda_algorithms.pda_pop_push', 'pda_algorithms.pda_can_pop_push'], shared=False)


def _pda_step_models(ctx, rep):
    """the step relation of the PDA search, on a finite model (push, pop, replace, stack-neutral moves)"""
    small_models.check_pda_step(ctx, rep, ctx.prog.func('pda_algorithms.pda_do_transition'), False)
    small_models.check_pda_step(ctx, rep, ctx.prog.func('pda_algorithms.pda_epsilon_closure'), True)
    rep.clauses_decided.append('pda_do_transition and pda_epsilon_closure return exactly the configurations of the definition on a PDA with pushing, popping, replacing and stack-neutral moves (M11, finite model)')


def check_C10(ctx, rep):
    small_models2.check_pda_to_cfg(ctx, rep, ctx.prog.func('pda_algorithms.pda_to_cfg'))
    rep.clauses_decided.append('pda_to_cfg returns a grammar whose start variable derives exactly the accepted words up to length 3 resp. 2 on nine model PDAs (replacing and stack-neutral moves, symbols left on the stack, several final states) under two iteration orders of sets; the PDA handed in is untouched (M33, finite model)')
    rep.clauses_decided += ['pure twins deep-copy and call the in-place normal form (R-TWIN)', 'input PDA not modified (R-EFFECT)',
                            'states, bottom marker and dummy symbol are fresh (R-FRESH)',
                            'push/pop case split: for all (u,v) over {eps,x,y}^2 one branch is taken and the inserted chain pops u / pushes v with push-or-pop moves only (M5)',
                            'the three normal forms are established before the triple construction; the empty-stack form drains the stack with pop moves (R-PDAFORM)']
    rep.not_decided += ['language equality of the normal forms and of the grammar']
    _twins(ctx, rep, ['pda_to_accept_on_empty_stack', 'pda_to_push_pop'])
    n = _fresh_in(ctx, rep, ['pda_algorithms.pda_to_one_accepting_state_in_place', 'pda_algorithms.pda_to_accept_on_empty_stack_in_place',
                             'pda_algorithms.pda_to_push_pop_in_place'], providers=['dfa_algorithms.fresh_state', 'pda_algorithms.fresh_symbol'])
    if n < 6:
        raise AnalysisError('fewer than 6 name-introduction sites found for C10')
    P = ctx.prog.func
    if not pda_rules.check_push_pop_model(ctx, rep, P('pda_algorithms.pda_to_push_pop_in_place')):
        if pda_rules.check_push_pop_split(ctx, rep, P('pda_algorithms.pda_to_push_pop_in_place')) < 9:
            raise AnalysisError('push/pop case split not evaluated')
    pda_rules.check_pda_to_cfg_pipeline(ctx, rep, P('pda_algorithms.pda_to_cfg'))
    pda_rules.check_push_pop_predicate(ctx, rep, P('pda_algorithms.pda_is_push_pop'))
    if not pda_rules.check_empty_stack_model(ctx, rep, P('pda_algorithms.pda_to_accept_on_empty_stack_in_place')):
        pda_rules.check_empty_stack_form(ctx, rep, P('pda_algorithms.pda_to_accept_on_empty_stack_in_place'))
        if pda_rules.check_added_transitions_push_pop(ctx, rep, P('pda_algorithms.pda_to_accept_on_empty_stack_in_place')) < 2:
            raise AnalysisError('transition insertion sites of the empty-stack form vanished')
    _effect_on(ctx, rep, ['pda_algorithms.pda_to_cfg', 'pda_algorithms.pda_to_push_pop', 'pda_algorithms.pda_to_accept_on_empty_stack', 'pda_algorithms.pda_is_push_pop'])


def check_C11(ctx, rep):
    small_models2.check_tm(ctx, rep, ctx.prog.func('tm_algorithms.tm_accepts_word'), ctx.prog.func('tm_algorithms.tm_simulate_word'))
    rep.clauses_decided.append('tm_accepts_word and tm_simulate_word give the verdict and the configuration sequence of the definition on five model machines (a missing transition, a bump at the left end, writing and returning, an accepting initial state), all words up to length 3 and seven budgets from 0 to 40 (M34, finite model)')
    rep.clauses_decided += ['head >= 0 after every step, missing-transition default, blank extension, write before move (M6)',
                            'verdict loop and trace loop conform to one counter model for budgets 0..3 x (never halts | accepts / rejects after 0..3 steps) x word length 0 / 2: steps = min(j, k), no step in a halting state, verdict True / False / None, trace length steps + 1, initial tape = word or one blank (R-TM.model)',
                            'same default budget at the entry points, forwarded by the enumerator (R-TM.budget)']
    rep.not_decided += ['step-by-step agreement with delta beyond those facts']
    P = ctx.prog.func
    models.check_tm_step(ctx, rep, P('tm_algorithms.tm_do_transition'))
    from .rules import tmcount
    # the verdict loop and the trace loop are judged against ONE counter model (budget x halting scenario x word length):
    # two loops that both conform are the same machine, however each of them is written
    if tmcount.check_scenarios(ctx, rep, P('tm_algorithms.tm_accepts_word'), 'verdict') + tmcount.check_scenarios(ctx, rep, P('tm_algorithms.tm_simulate_word'), 'trace') < 2:
        # outside the counter fragment: fall back to the syntactic comparison of the two loops
        misc.check_tm_loops(ctx, rep, P('tm_algorithms.tm_accepts_word'), P('tm_algorithms.tm_simulate_word'))
    misc.check_tm_budget(ctx, rep, [P('tm_algorithms.tm_accepts_word'), P('tm_algorithms.tm_simulate_word'), P('tm_algorithms.tm_words_up_to_n')],
                         P('tm_algorithms.tm_words_up_to_n'))
    _effect_on(ctx, rep, ['tm_algorithms.tm_accepts_word', 'tm_algorithms.tm_simulate_word', 'tm_algorithms.tm_words_up_to_n', 'tm_algorithms.tm_do_transition'], shared=False)


def check_C12(ctx, rep):
    small_models3.check_dfa_checkers(ctx, rep)
    rep.clauses_decided.append('the checkers of the union, intersection, symmetric-difference, complement and minimal-DFA exercises, evaluated whole (parsers, library construction, language comparison, feedback) on a model exercise each: OK is printed for the right answer and for none of 14 wrong answers -- accepting sets of another operation, a redirected edge, no / all accepting states, the non-minimal original, another language (K13, finite model)')
    small_models3.check_is_chomsky(ctx, rep)
    rep.clauses_decided.append('CFG.is_chomsky answers True exactly for the grammars in Chomsky normal form on 18 model grammars: right-hand sides of every shape up to length four, the offending rule first / in the middle / last, epsilon rules of other variables before and after the one of the start variable, the start variable on a right-hand side (M37, finite model)')
    small_models2.check_accepts_rejects_checker(ctx, rep, ctx.prog.func('notebook.check_automaton_accepts_rejects'))
    rep.clauses_decided.append('check_automaton_accepts_rejects prints OK exactly when a model DFA accepts every word of the first list and rejects every word of the second, on 225 pairs of lists with the empty word in every position (K12, finite model)')
    small_models2.check_subset_name_readers(ctx, rep, ctx.prog.func('notebook_nfa2dfa.check_nfa_to_dfa_answer'), ctx.prog.func('dfa.print_state_set'))
    rep.clauses_decided.append('the helper of the NFA-to-DFA checker that decodes subset names inverts print_state_set on the empty set, a singleton and larger sets (R-IO.inv, finite model)')
    rep.clauses_decided += ['no recorded error is dropped (K1)', 'OK and an error never lie on one path (K2)', 'handlers report errors (K3)',
                            'answer/reference roles and polarity of the language comparison (K4)', 'minimal counterexample (K5)',
                            'same bound for both languages (K6)', 'state limit polarity (K7)']
    rep.not_decided += ['completeness of a criterion with respect to the shape of an answer; semantic adequacy of each structural comparison']
    fbf = feedback.feedback_returning(ctx)
    fs = feedback.checker_functions(ctx)
    for f in fs:
        feedback.check_k1(ctx, rep, f, fbf)
        feedback.check_k2(ctx, rep, f)
        feedback.check_k3(ctx, rep, f)
        feedback.check_k6(ctx, rep, f)
        rep.analysed(f)
    roles = feedback.Roles(ctx)
    rep.extra['template_entry_points'] = sorted({'{} -> {}'.format(b, f.name) for b, f, _, _ in roles.entries})
    feedback.check_k4_roles(ctx, rep, roles)
    for f in fs:
        feedback.check_k8(ctx, rep, f, roles)
        feedback.check_k9(ctx, rep, f, roles)
    if feedback.check_k10(ctx, rep, ctx.prog.func('notebook_dfa.check_dfa_minimal'), roles) < 1:
        raise AnalysisError('check_dfa_minimal no longer minimises its reference')
    rep.clauses_decided.append('the minimality checker gives feedback exactly when the number of states differs from that of the minimised reference (K10, three orderings)')
    # the checkers judge what the parsers built from the submitted text
    build.check_builder_fields(ctx, rep)
    feedback.check_compare_languages(ctx, rep, ctx.prog.func('language_generator.compare_languages'))
    feedback.check_k7(ctx, rep, ctx.prog.func('notebook.check_max_states'))
    small_models.check_print_feedback(ctx, rep, ctx.prog.func('notebook.print_feedback'))
    rep.clauses_decided.append('print_feedback prints OK exactly when no message was recorded, whatever the messages say (K11, finite model)')
    if closed.check_checker_targets(ctx, rep, ctx.prog.func('notebook_nfa2dfa.check_nfa_to_dfa_answer')) < 1:
        raise AnalysisError('recomputed-target comparison of the NFA->DFA checker vanished')
    dispatch.check_kind_dispatch(ctx, rep, ctx.prog.func('notebook.check_automaton_accepts_rejects.accepts'), '_accepts_word')
    dispatch.check_kind_dispatch(ctx, rep, ctx.prog.func('language_generator.generate_language'), '_words_up_to_n')
    dispatch.check_ext_tables(ctx, rep, [ctx.prog.func('notebook.language_parser'), ctx.prog.func('make_notebook.parse_language_file')])
    # the word lists of the exercises (expected / accepted / rejected words) are read by parse_word_list
    if iorules.check_word_list_tokens(ctx, rep, ctx.prog.func('language_algorithms.parse_word_list')) < 1:
        raise AnalysisError('tokeniser of parse_word_list vanished')
    rep.clauses_decided.append('the word-list reader yields no token for an empty list (R-IO.tokens)')
    # the language of a submitted Turing machine is computed by running it: a wrong step function makes the checker
    # compare the wrong language (an answer that relies on the left end of the tape is judged on another machine)
    models.check_tm_step(ctx, rep, ctx.prog.func('tm_algorithms.tm_do_transition'))
    rep.clauses_decided.append('the single-step function with which the language of a submitted TM is computed keeps the head on the tape, extends it with blanks and writes before it moves (M6)')
    pda_rules.check_stack_step(ctx, rep, ctx.prog.func('pda_algorithms.pda_can_pop_push'), ctx.prog.func('pda_algorithms.pda_pop_push'))
    _pda_step_models(ctx, rep)
    rep.clauses_decided.append('the stack step with which the language of a submitted PDA is computed (M9, finite model)')


STATE_NAME_CHAINS = [
    # (writer of the state names, checker, parameter carrying the answer) -- read from make_notebook.apply_command and the templates
    ('dfa_algorithms.dfa_product.make_state', 'notebook_dfa.check_dfa_union', 'dfa'),
    ('dfa_algorithms.dfa_product.make_state', 'notebook_dfa.check_dfa_intersection', 'dfa'),
    ('dfa_algorithms.dfa_product.make_state', 'notebook_dfa.check_dfa_symmetric_difference', 'dfa'),
    ('dfa.print_state_set', 'notebook_nfa2dfa.check_nfa2dfa', 'dfa'),
    ('dfa.print_state_set', 'notebook_dfa.check_dfa_minimal', 'answer_dfa'),
    ('dfa_algorithms.fresh_state', 'notebook_dfa.check_dfa_reverse', 'nfa'),
]


def check_C13(ctx, rep):
    small_models3.check_dfa_checkers(ctx, rep)
    rep.clauses_decided.append('the checkers of the union, intersection, symmetric-difference, complement and minimal-DFA exercises, evaluated whole (parsers, library construction, language comparison, feedback) on a model exercise each: OK is printed for the right answer and for none of 14 wrong answers -- accepting sets of another operation, a redirected edge, no / all accepting states, the non-minimal original, another language (K13, finite model)')
    small_models3.check_simple_cfg_roundtrip(ctx, rep)
    rep.clauses_decided.append('parse_simple_cfg(cfg_print_simple(G)) has the rules of G in order, its variables, terminals and start variable on seven model grammars in the simple format: the empty alternative on the first line, on a later line only, in the middle of a line, nowhere (M39, finite model)')
    small_models2.check_chomsky_phases(ctx, rep, [ctx.prog.func('cfg_algorithms.' + n0) for n0 in small_models2._PHASES], first_rule=True)
    rep.clauses_decided.append('after every phase of the Chomsky conversion the first rule belongs to the start variable on twelve model grammars under two iteration orders of sets -- the simple text format, in which the answer of each phase is printed, has no start declaration and its reader takes the variable of the first rule (M28 with the first-rule clause, finite model)')
    small_models3.check_text_roundtrip(ctx, rep)
    rep.clauses_decided.append('the text printed for a model reference automaton is read back as that automaton by the parser the checkers use (M35, finite model)')
    small_models2.check_subset_name_readers(ctx, rep, ctx.prog.func('notebook_nfa2dfa.check_nfa_to_dfa_answer'), ctx.prog.func('dfa.print_state_set'))
    rep.clauses_decided.append('the helper of the NFA-to-DFA checker that decodes subset names inverts print_state_set on the empty set, a singleton and larger sets (R-IO.inv, finite model)')
    rep.clauses_decided += ['every template command has a branch of matching arity and every checker call resolves with matching arity (R-DISPATCH c)',
                            'printed keywords, state-name formats, operator tokens, symbol classes and the CFG epsilon spelling are inside what the reading parser accepts (R-IO a/c/d/e)']
    rep.clauses_decided += ['the structural demands of the reverse checker (fresh initial state, accepting set {D.q0}) are met by dfa_reverse on every path (R-AGREE.reverse)']
    rep.not_decided += ["that the checker's semantic criterion accepts the generated object; data-dependent clashes such as a requested start variable that already exists"]
    if dispatch.check_templates(ctx, rep) < 60:
        raise AnalysisError('fewer than 60 template tags / checker calls found')
    iorules.check_keywords(ctx, rep)
    iorules.check_declared_lines_unconditional(ctx, rep)
    if iorules.check_state_formats(ctx, rep, STATE_NAME_CHAINS) < 5:
        raise AnalysisError('fewer than 5 state-name chains decided')
    iorules.check_regexp_io(ctx, rep)
    visitor.check_visitors(ctx, rep)
    iorules.check_paren_independence(ctx, rep)
    iorules.check_cfg_io(ctx, rep)
    build.check_parse_line(ctx, rep)
    build.check_builder_fields(ctx, rep)
    build.check_value_validators(ctx, rep)
    iorules.check_line_delimiters(ctx, rep)
    misc.check_minimiser_siblings(ctx, rep, F(ctx, 'dfa_algorithms.dfa_minimize', 'dfa_algorithms.dfa_quotient', 'dfa_algorithms.dfa_hopfcroft'))
    models.check_reverse_agreement(ctx, rep, ctx.prog.func('dfa_algorithms.dfa_reverse'), ctx.prog.func('notebook_dfa.check_dfa_reverse'))
    # the checkers compare the alphabet of the answer with the alphabet of the reference object
    models.check_alphabet_preserved(ctx, rep, F(ctx, 'nfa_algorithms.nfa_to_dfa', 'dfa_algorithms.dfa_complement', 'dfa_algorithms.dfa_reverse', 'dfa_algorithms.dfa_product',
                                                'dfa_algorithms.dfa_quotient', 'dfa_algorithms.dfa_hopfcroft', 'dfa_algorithms.dfa_from_table'))
    # the dfa2regexp answer key is extracted through dfa_to_gnfa / gnfa_minimize and then judged by check_dfa2regexp
    if not ka_rules.check_gnfa_edges_model(ctx, rep, ctx.prog.func('regexp_algorithms.dfa_to_gnfa')):
        ka_rules.check_gnfa_edges(ctx, rep, ctx.prog.func('regexp_algorithms.dfa_to_gnfa'))
    if not ka_rules.check_rip_model(ctx, rep, ctx.prog.func('regexp_algorithms.gnfa_minimize')):
        ka_rules.check_rip_step(ctx, rep, ctx.prog.func('regexp_algorithms.gnfa_minimize'))
    rep.clauses_decided.append('the regular expression extracted for the dfa2regexp answer key keeps every parallel transition and rips states by R1.R2*.R3 + R4 (M4, finite models)')
    # the `generate` command prints the words of the reference object, the *_language_from_words checkers read them back
    if iorules.check_word_list_tokens(ctx, rep, ctx.prog.func('language_algorithms.parse_word_list')) < 1:
        raise AnalysisError('tokeniser of parse_word_list vanished')
    rep.clauses_decided.append('the word list printed for a reference object with no word up to the bound (the empty text) is read back as the empty language (R-IO.tokens)')
    rep.extra['templates'] = len(ctx.prog.templates)
    rep.extra['template_tags'] = sum(len(t.tags) for t in ctx.prog.templates.values())


def check_C16(ctx, rep):
    small_models3.check_simple_cfg_roundtrip(ctx, rep)
    rep.clauses_decided.append('parse_simple_cfg(cfg_print_simple(G)) has the rules of G in order, its variables, terminals and start variable on seven model grammars in the simple format: the empty alternative on the first line, on a later line only, in the middle of a line, nowhere (M39, finite model)')
    small_models3.check_text_roundtrip(ctx, rep)
    rep.clauses_decided.append('parse_X(print_X(A)) equals A field by field on model DFAs, NFAs, PDAs and TMs (empty accepting set, empty alphabet, states without transitions, several labels per edge, names that are prefixes of one another, states named like keywords of the other kinds, declared symbols that no transition uses, epsilon / blank symbols other than the default) under two iteration orders of sets (M35, finite model; the line parser, the builders and the class invariants are interpreted by the analyser, re functions on model strings are the analyser\'s own)')
    rep.clauses_decided += ['keywords (R-IO a)', 'label layout roles and arity (R-IO b)', 'operator tokens, precedence order, symbol class (R-IO d)',
                            'CFG epsilon spelling and rule layout (R-IO e)', 'generated parsers match the .g4 files (R-IO f)', 'declared-versus-empty (R-BUILD)']
    rep.not_decided += ['field-by-field equality of the re-parsed object beyond the model automata and grammars of M35 / M39']
    iorules.check_declared_lines_unconditional(ctx, rep)
    if iorules.check_keywords(ctx, rep) < 20:
        raise AnalysisError('fewer than 20 printed keywords / builder keys found')
    iorules.check_label_layout(ctx, rep, 'pda')
    iorules.check_label_layout(ctx, rep, 'tm')
    iorules.check_regexp_io(ctx, rep)
    visitor.check_visitors(ctx, rep, exact=True)      # "the same printed form": no rewriting while parsing
    small_models.check_print_simple_roundtrip(ctx, rep, ctx.prog.func('regexp.print_regexp_simple'))
    rep.clauses_decided.append('the text print_regexp_simple gives for every expression tree of depth <= 3 reads back as that expression (R-IO.rt, finite model with the analyser\'s own reader of regexp_simple.g4)')
    iorules.check_paren_independence(ctx, rep)
    iorules.check_cfg_io(ctx, rep)
    if iorules.check_generated(ctx, rep) < 3:
        raise AnalysisError('fewer than 3 grammar / generated-parser pairs found')
    build.check_declared_vs_empty(ctx, rep)
    build.check_parse_line(ctx, rep)
    build.check_builder_fields(ctx, rep)
    build.check_value_validators(ctx, rep)
    iorules.check_line_delimiters(ctx, rep)
    _effect_on(ctx, rep, ['dfa_algorithms.print_dfa', 'nfa_algorithms.print_nfa', 'pda_algorithms.print_pda', 'tm_algorithms.print_tm',
                          'cfg_algorithms.cfg_print_simple', 'regexp.print_regexp', 'regexp.print_regexp_simple'], shared=False)


def check_C17(ctx, rep):
    small_models3.check_class_invariants(ctx, rep)
    rep.clauses_decided.append('the constructors of DFA, NFA, PDA and TM refuse every model object that violates exactly one invariant of the formal definition and accept the valid ones, among them automata whose states are named after sets and pairs (M40, finite model)')
    small_models3.check_descriptions(ctx, rep)
    rep.clauses_decided.append('on model descriptions of each kind the parser returns exactly the automaton written next to the well-formed texts (line orders, omitted declarations, comments, several labels per line, default and recognised epsilon) and raises on each single-fault text: not deterministic, not total, undeclared state / symbol, no or two initial states, repeated declaration, incomplete or ill-formed transition, a name with a well-formed prefix only (M36, finite model)')
    small_models3.check_text_roundtrip(ctx, rep)
    rep.clauses_decided += ['every builder passes through the declared-states, label, single-initial-state and symbol checks before constructing; DFA also determinism and totality (must-pass-through)',
                            'each check raises exactly under its condition (guard polarity)', 'every keyword store is dominated by the duplicate check for the same keyword',
                            'constructors validate; class invariant atoms present', 'declared-versus-empty', 'label decoding roles and arity (R-IO b)']
    rep.not_decided += ['that every ill-formed text is rejected (the text space is open)']
    if build.check_builders(ctx, rep) < 15:
        raise AnalysisError('fewer than 15 builder obligations found')
    build.check_check_methods(ctx, rep)
    if build.check_builder_fields(ctx, rep) < 7:
        raise AnalysisError('fewer than 7 builder state-set arguments found')
    build.check_value_validators(ctx, rep)
    build.check_tm_default_alphabet(ctx, rep)
    small_models.check_used_states(ctx, rep, ctx.prog.func('automaton.Automaton.used_states'))
    rep.clauses_decided.append('the states derived when the states line is omitted are the initial states, the final states and both ends of every transition (M10, finite model)')
    if build.check_parse_line(ctx, rep) < 2:
        raise AnalysisError('fewer than 2 keyword stores found in parse_line')
    if build.check_invariants(ctx, rep) < 30:
        raise AnalysisError('fewer than 30 invariant atoms expected')
    build.check_declared_vs_empty(ctx, rep)
    work.check_scan_loops(ctx, rep, ctx.prog.funcs_of('automaton_algorithms') + [f for b in ('dfa_algorithms', 'nfa_algorithms', 'pda_algorithms', 'tm_algorithms') for f in ctx.prog.funcs_of(b) if f.cls is not None])
    iorules.check_label_layout(ctx, rep, 'pda')
    iorules.check_label_layout(ctx, rep, 'tm')
    iorules.check_keywords(ctx, rep)
    iorules.check_declared_lines_unconditional(ctx, rep)
    iorules.check_line_delimiters(ctx, rep)


def check_C14(ctx, rep):
    small_models2.check_language_helpers(ctx, rep, {n0: ctx.prog.func('language_algorithms.' + n0) for n0 in ('language_no_prefix', 'language_no_extend', 'language_reverse', 'concatenation', 'words_up_to_n')})
    rep.clauses_decided.append('language_no_prefix, language_no_extend, language_reverse, concatenation and words_up_to_n return the sets their documentation strings define on eleven model languages (the empty language, the empty word alone and among others, a prefix that is not the lexicographic neighbour, chains) (M31, finite model)')
    small_models2.check_dfa_constructions(ctx, rep, {op0: ctx.prog.func('dfa_algorithms.dfa_' + op0) for op0 in ('complement', 'union', 'intersection', 'symmetric_difference', 'reverse', 'no_prefix', 'no_extend')})
    rep.clauses_decided.append('complement, the three products, reversal, the prefix-free and the non-extendable restriction return valid automata with exactly the words up to length 4 of the set operation on model DFAs (a finite language with extensions, a final initial state, the empty language); operands untouched (M21, finite model)')
    small_models2.check_remove_unreachable(ctx, rep, ctx.prog.func('dfa_algorithms.dfa_remove_unreachable_states'))
    rep.clauses_decided.append('dfa_remove_unreachable_states keeps exactly the reachable states, the reachable final states (the initial state included) and their transitions on four model DFAs (M12, finite model)')
    rep.clauses_decided += ['accepting sets are OR/AND/XOR, Q-F, F&reach (M1)', 'edge transformers equal the specification table (M2)',
                            'prefix helpers take prefixes starting with the empty one (M8)', 'totalisation twin pairing (R-TWIN)', 'operands untouched and not shared (R-EFFECT a/b)', 'reachability search discipline (R-WORK)']
    rep.not_decided += ['the reachability argument of dfa_no_extend; exact semantics of the one-line set helpers']
    _twins(ctx, rep, ['dfa_make_total'])
    P = ctx.prog.func
    n = models.check_product_accepting(ctx, rep, P('dfa_algorithms.dfa_product'))
    if n < 3:
        rep.note('fewer than three product types recognised')
    models.check_product_wrappers(ctx, rep, [('dfa_algorithms.dfa_union', 'union'), ('dfa_algorithms.dfa_intersection', 'intersection'),
                                             ('dfa_algorithms.dfa_symmetric_difference', 'symmetric_difference')])
    models.check_product_step(ctx, rep, P('dfa_algorithms.dfa_product'))
    models.check_set_model(ctx, rep, P('dfa_algorithms.dfa_complement'), 'DFA', 'F', {'Q': {'D.Q'}, 'F': {'D.F'}}, lambda a: a['Q'] and not a['F'], 'Q - F')
    models.check_set_model(ctx, rep, P('dfa_algorithms.dfa_remove_unreachable_states'), 'DFA', 'F',
                           {'F': {'D.F'}, 'reach': {'dfa_reachable_states(D, q0)', 'dfa_reachable_states(D, D.q0)'}}, lambda a: a['F'] and a['reach'], 'F & reachable')
    models.check_set_model(ctx, rep, P('dfa_algorithms.dfa_remove_unreachable_states'), 'DFA', 'Q',
                           {'reach': {'dfa_reachable_states(D, q0)', 'dfa_reachable_states(D, D.q0)'}}, lambda a: a['reach'], 'the reachable states')
    models.check_set_model(ctx, rep, P('dfa_algorithms.dfa_no_prefix'), 'NFA', 'F', {'F': {'D.F'}}, lambda a: a['F'], 'F')
    models.check_reverse_edges(ctx, rep, P('dfa_algorithms.dfa_reverse'))
    models.check_no_prefix_edges(ctx, rep, P('dfa_algorithms.dfa_no_prefix'))
    models.check_reachable_restriction(ctx, rep, P('dfa_algorithms.dfa_remove_unreachable_states'))
    models.check_make_total(ctx, rep, P('dfa_algorithms.dfa_make_total_in_place'))
    _fresh_in(ctx, rep, ['dfa_algorithms.dfa_make_total_in_place', 'dfa_algorithms.dfa_reverse'], providers=['dfa_algorithms.fresh_state'])
    _eps_in(ctx, rep, ['dfa_algorithms.dfa_reverse', 'dfa_algorithms.dfa_no_prefix'])
    bound.check_enumerator(ctx, rep, P('language_algorithms.words_up_to_n'))
    models.check_prefix_helper(ctx, rep, P('language_algorithms.language_no_prefix'))
    models.check_no_extend_helper(ctx, rep, P('language_algorithms.language_no_extend'))
    work.check_level_search(ctx, rep, ctx.prog.func('dfa_algorithms.dfa_reachable_states'))
    _effect_on(ctx, rep, ['dfa_algorithms.dfa_product', 'dfa_algorithms.dfa_union', 'dfa_algorithms.dfa_intersection', 'dfa_algorithms.dfa_symmetric_difference',
                          'dfa_algorithms.dfa_complement', 'dfa_algorithms.dfa_reverse', 'dfa_algorithms.dfa_no_prefix', 'dfa_algorithms.dfa_no_extend',
                          'dfa_algorithms.dfa_reachable_states', 'dfa_algorithms.dfa_remove_unreachable_states', 'dfa_algorithms.dfa_make_total',
                          'language_algorithms.language_reverse', 'language_algorithms.language_no_prefix', 'language_algorithms.language_no_extend',
                          'language_algorithms.concatenation', 'language_algorithms.words_of_length_n', 'language_algorithms.words_up_to_n'])


def check_C15(ctx, rep):
    small_models2.check_nfa_run(ctx, rep, ctx.prog.func('nfa_algorithms.nfa_simulate_word'))
    small_models2.check_pda_run(ctx, rep, ctx.prog.func('pda_algorithms.pda_simulate_word'))
    rep.clauses_decided.append('nfa_simulate_word and pda_simulate_word return a run exactly for the accepted words of the model NFAs / PDAs, and every returned run is genuine: from the initial configuration to a final state with the word read, each row by one transition (M29, M30, finite models)')
    rep.clauses_decided += ['epsilon-path searches terminate and their predecessor maps are written once per node (R-WORK W2/W3)',
                            'the unread-input column is the suffix word[k:] in all three simulators (M8)',
                            'the history alternates raw and closed sets; acceptance and steps on closed sets (R-CLOSED i/ii/iv)',
                            'right-hand sides are unpacked into two symbols only under a length-2 test (R-ARITY)',
                            'every node of the derivation tree is expanded by exactly one alternative: the loop over the split points is left after the children were added (R-WORK W9)',
                            'the stack step behind the PDA trace: guard true exactly when u is epsilon or on top, action pops u / pushes v (M9, finite model)',
                            'the rows of the run are assembled in the order of the computation: forward chunks prepended, or reversed chunks appended and one final reversal (order algebra, M8)']
    rep.not_decided += ['that each returned row is a legal move; leftmost/rightmost order of the derivation']
    _worklists_in(ctx, rep, ['nfa_algorithms.nfa_find_epsilon_path', 'pda_algorithms.pda_find_epsilon_path', 'nfa_algorithms.epsilon_closure', 'pda_algorithms.pda_epsilon_closure'])
    work.check_worklists(ctx, rep, F(ctx, 'cfg_algorithms.cfg_derive_word', 'cfg_algorithms.cfg_derive_word.extract_derivation'))
    for sp in ('nfa_algorithms.nfa_find_epsilon_path', 'pda_algorithms.pda_find_epsilon_path'):
        work.check_marker_alias(ctx, rep, ctx.prog.func(sp))
    P = ctx.prog.func
    models.check_dfa_sim_column(ctx, rep, P('dfa_algorithms.dfa_simulate_word'))
    small_models.check_dfa_run(ctx, rep, P('dfa_algorithms.dfa_simulate_word'))
    _closed(ctx, rep, ['nfa_algorithms.nfa_simulate_word', 'pda_algorithms.pda_simulate_word'], 2)
    closed.check_history(ctx, rep, P('nfa_algorithms.nfa_simulate_word'))
    closed.check_history(ctx, rep, P('pda_algorithms.pda_simulate_word'))
    models.check_backward_word(ctx, rep, P('nfa_algorithms.nfa_simulate_word'))
    models.check_backward_word(ctx, rep, P('pda_algorithms.pda_simulate_word'))
    models.check_trace_order(ctx, rep, P('nfa_algorithms.nfa_simulate_word'))
    models.check_trace_order(ctx, rep, P('pda_algorithms.pda_simulate_word'))
    if misc.check_arity(ctx, rep, P('cfg_algorithms.cfg_derive_word')) < 1:
        raise AnalysisError('right-hand-side unpack in cfg_derive_word vanished')
    pda_rules.check_find_transition(ctx, rep, P('pda_algorithms.pda_find_transition'))
    # the PDA trace is rebuilt from the sets that pda_do_transition produced: its stack step is part of "genuine"
    pda_rules.check_stack_step(ctx, rep, P('pda_algorithms.pda_can_pop_push'), P('pda_algorithms.pda_pop_push'))
    _pda_step_models(ctx, rep)
    if work.check_single_expansion(ctx, rep, P('cfg_algorithms.cfg_derive_word')) < 1:
        raise AnalysisError('tree-building loop of cfg_derive_word vanished')
    _effect_on(ctx, rep, ['dfa_algorithms.dfa_simulate_word', 'nfa_algorithms.nfa_simulate_word', 'pda_algorithms.pda_simulate_word',
                          'nfa_algorithms.nfa_find_epsilon_path', 'pda_algorithms.pda_find_epsilon_path', 'nfa_algorithms.nfa_find_transition',
                          'pda_algorithms.pda_find_transition', 'cfg_algorithms.cfg_derive_word'], shared=False)


def check_C18(ctx, rep):
    for fn0, op0 in (('nfa_union', 'union'), ('nfa_concatenation', 'concat'), ('nfa_repetition', 'star')):
        small_models2.check_nfa_operation(ctx, rep, ctx.prog.func('nfa_algorithms.' + fn0), op0)
    rep.clauses_decided.append('nfa_union / nfa_concatenation / nfa_repetition return a valid NFA with exactly the words up to length 4 of the union / concatenation / iteration on model NFAs with several final states that have different ways on, a final initial state, colliding state names and different epsilon symbols; operands untouched (M17, finite model)')
    rep.clauses_decided += ['operands untouched (R-EFFECT a)', 'the introduced state is fresh for the union of the operand state sets (R-FRESH)',
                            'the result is built with the epsilon its keys use and operand epsilons are translated (R-EPS)',
                            'accepting set and alphabet of the result combine both operands as specified (M1)', 'shared default generators inventoried (R-STATE c)']
    rep.not_decided += ['the language identities themselves']
    _effect_on(ctx, rep, ['nfa_algorithms.nfa_union', 'nfa_algorithms.nfa_concatenation', 'nfa_algorithms.nfa_repetition'], shared=False)
    state.check_hidden_state(ctx, rep, modules=['nfa_algorithms', 'identifier_generator'])
    n = _fresh_in(ctx, rep, ['nfa_algorithms.nfa_union', 'nfa_algorithms.nfa_repetition', 'nfa_algorithms.nfa_concatenation'],
                  providers=['nfa_algorithms._fresh_nfa_state'])
    if n < 2:
        raise AnalysisError('fewer than 2 state-introduction sites found for C18')
    fresh.check_generator(ctx, rep)
    if _eps_in(ctx, rep, ['nfa_algorithms.nfa_union', 'nfa_algorithms.nfa_repetition', 'nfa_algorithms.nfa_concatenation']) < 2:
        raise AnalysisError('NFA constructor sites of the building blocks vanished')
    fresh.check_eps_translation(ctx, rep, ctx.prog.func('nfa_algorithms._add_nfa_transitions'))
    # the language of a result is what nfa_accepts_word says about it: its decisions are taken on epsilon-closed sets
    _closed(ctx, rep, ['nfa_algorithms.nfa_accepts_word'], 1)
    P = ctx.prog.func
    U, C, R_ = P('nfa_algorithms.nfa_union'), P('nfa_algorithms.nfa_concatenation'), P('nfa_algorithms.nfa_repetition')
    two = lambda x: {'A': {'N1.' + x}, 'B': {'N2.' + x}}
    models.check_set_model(ctx, rep, U, 'NFA', 'F', two('F'), lambda a: a['A'] or a['B'], 'F1 | F2', rule='R-MODEL.M1')
    models.check_set_model(ctx, rep, U, 'NFA', 'Sigma', two('Sigma'), lambda a: a['A'] or a['B'], 'Sigma1 | Sigma2', rule='R-MODEL.M1')
    models.check_set_model(ctx, rep, C, 'NFA', 'F', two('F'), lambda a: a['B'], 'F2', rule='R-MODEL.M1')
    models.check_set_model(ctx, rep, C, 'NFA', 'Sigma', two('Sigma'), lambda a: a['A'] or a['B'], 'Sigma1 | Sigma2', rule='R-MODEL.M1')


def check_C19(ctx, rep):
    small_models3.check_simplify_models(ctx, rep)
    rep.clauses_decided.append('regexp_simplify keeps the words up to length 3 on 47 model expressions, twelve of them over the letters 0 and 1 whose printed form coincides with the constants (M38, finite model)')
    small_models2.check_unit_elimination(ctx, rep, ctx.prog.func('cfg_algorithms.cfg_eliminate_unit_rules_in_place'))
    rep.clauses_decided.append('cfg_eliminate_unit_rules_in_place, on six model grammars (unit cycles with an exit, a start variable that only reaches unit rules, a self-loop) under two iteration orders of the variable set, leaves no unit rule and keeps the words up to length 3 (M16, finite model)')
    rep.clauses_decided += ['no value-returning operation mutates an operand at any depth (R-EFFECT a)',
                            'no result shares an in-place-mutable field with an argument (R-EFFECT b)',
                            'no hidden insertion through defaultdict reads of partial maps (R-EFFECT c)',
                            'in-place / pure twin pairing (R-TWIN)',
                            'configuration read at call time, flag-guarded code only prints, no cross-call memo feeds a result (R-STATE)',
                            'acceptance tests and enumerators are PROVEN-INDEPENDENT of set iteration order, or the harmful cut-off pattern is reported; choice points of minimisers / eliminations / searches are enumerated (R-ORDER)',
                            'no one-shot iterator is consumed in a loop it was created outside of (R-WORK W6)',
                            'flag- and size-controlled fixpoint loops of the library stop only after a round without change (R-WORK W5): an early stop makes the result depend on the iteration order',
                            'the pair table of dfa_minimize is written and read under one enumeration of the state set (R-INDEX)']
    rep.not_decided += ['equality of languages across iteration orders where the representation legitimately depends on the order']
    fs = effect.pure_functions(ctx)
    effect.check_no_operand_mutation(ctx, rep, fs)
    effect.check_no_shared_result(ctx, rep, fs)
    effect.check_guarded_reads(ctx, rep, [f for f in _alg_funcs(ctx) if not f.name.endswith('_in_place')])
    for p, i in twin.twin_pairs(ctx):
        twin.check_twin(ctx, rep, p, i)
    lib = [f for f in ctx.prog.functions.values() if ctx.effects.in_scope(f) and not f.module.name.startswith('template:')]
    twin.check_no_unconditional_self_call(ctx, rep, lib)
    state.check_config_reads(ctx, rep)
    if state.check_flag_guarded(ctx, rep, lib) < 5:
        raise AnalysisError('fewer than 5 logging/verbose-guarded sites found')
    state.check_hidden_state(ctx, rep)
    work.check_one_shot_iterators(ctx, rep, lib)
    work.check_consumed_twice(ctx, rep, lib)
    # a fixpoint loop that can stop early stops at a point that depends on the iteration order of the sets it walks
    for f0 in lib:
        if f0.parent is None and any(isinstance(x, ast.While) for x in ast.walk(f0.node)):
            work.check_flag_fixpoint(ctx, rep, f0)
            work.check_size_fixpoint(ctx, rep, f0)
    order.check_independence(ctx, rep, F(ctx, *(ACCEPTANCE + ENUMERATORS + ['regexp_algorithms.regexp_words_up_to_n', 'language_generator.compare_languages', 'language_generator.generate_language'])))
    order.check_independence(ctx, rep, F(ctx, *CHOICE_FUNCS), must=False)
    # a table keyed by positions in list(Q) is decoded with the same enumeration of the set (another one differs per hash seed)
    misc.check_index_agreement(ctx, rep, ctx.prog.func('dfa_algorithms.dfa_minimize'))
    rep.extra['effect_rounds'] = ctx.effects.rounds
    rep.extra['calls_resolved'] = sum(s.calls - s.unresolved for s in ctx.effects.summaries.values())
    rep.extra['calls_unresolved'] = sum(s.unresolved for s in ctx.effects.summaries.values())


def check_C20(ctx, rep):
    for sp0 in ('dfa_algorithms.dfa_isomorphic', 'dfa_algorithms.dfa_isomorphic1'):
        small_models2.check_isomorphism(ctx, rep, ctx.prog.func(sp0))
    rep.clauses_decided.append('both isomorphism tests answer True exactly when a bijection of the reachable states exists on 19 model pairs, among them lassos of equal size and language, a state with two partners in either direction (M14, finite model)')
    rep.clauses_decided += ['both explorations terminate and enqueue exactly the unseen pairs (R-WORK W2)',
                            'the relation built is checked in both directions: functional and injective (R-SYM)']
    rep.not_decided += ['that a passing exploration decides isomorphism of the reachable parts']
    _worklists_in(ctx, rep, ['dfa_algorithms.dfa_isomorphic', 'dfa_algorithms.dfa_isomorphic1'])
    misc.check_symmetry(ctx, rep, ctx.prog.func('dfa_algorithms.dfa_isomorphic'))
    misc.check_symmetry(ctx, rep, ctx.prog.func('dfa_algorithms.dfa_isomorphic1'))
    misc.check_consistency_disjunction(ctx, rep, ctx.prog.func('dfa_algorithms.dfa_isomorphic1'))
    for sp in ('dfa_algorithms.dfa_isomorphic', 'dfa_algorithms.dfa_isomorphic1'):
        misc.check_paired_bookkeeping(ctx, rep, ctx.prog.func(sp))
    for sp in ('dfa_algorithms.dfa_isomorphic', 'dfa_algorithms.dfa_isomorphic1'):
        work.check_marker_alias(ctx, rep, ctx.prog.func(sp))
    _effect_on(ctx, rep, ['dfa_algorithms.dfa_isomorphic', 'dfa_algorithms.dfa_isomorphic1'], shared=False)


_MODULES_OF = {
    'C04': ['dfa_algorithms'], 'C07': ['cfg_algorithms', 'cfg'], 'C08': ['cfg_algorithms', 'cfg'], 'C09': ['pda_algorithms'], 'C10': ['pda_algorithms'],
    'C11': ['tm_algorithms'], 'C14': ['dfa_algorithms', 'language_algorithms'], 'C15': ['dfa_algorithms', 'nfa_algorithms', 'pda_algorithms', 'cfg_algorithms'],
    'C20': ['dfa_algorithms'], 'C16': ['dfa_algorithms', 'nfa_algorithms', 'pda_algorithms', 'tm_algorithms', 'cfg_algorithms', 'regexp'],
    'C17': ['automaton_algorithms', 'dfa_algorithms', 'nfa_algorithms', 'pda_algorithms', 'tm_algorithms'],
}


# the notebook generator dispatches every command of every exercise: as a root it would make the whole library the
# "closure" of any property one of whose functions it happens to call; it is a root only for the properties about it
DISPATCHERS = {'make_notebook.py:apply_command': ('C13', 'C19')}


def _roots_of(ctx, rep):
    by_short = {f.short: f for f in ctx.prog.functions.values()}
    return [by_short[s] for s in sorted(rep.functions) if s in by_short and not by_short[s].module.name.startswith('template:')
            and not (s in DISPATCHERS and rep.prop not in DISPATCHERS[s])]


def _with_hidden_state(pid, fn):
    def wrapped(ctx, rep):
        deferred = None
        try:
            fn(ctx, rep)
        except AnalysisError as e:
            # a vanished anchor / instance count stops the property's own rules; the closure-wide rules below still run,
            # and a violation they find is reported first (exit 1) -- otherwise the run fails as undecidable (exit 2)
            deferred = e
        try:
            _closure_wide(ctx, rep)
        except AnalysisError:
            if deferred is None:
                raise
        if deferred is not None:
            if not rep.violations():
                raise deferred
            rep.note('analysis incomplete: {}'.format(deferred))

    def _closure_wide(ctx, rep):
        if pid != 'C19':
            # hidden state is judged on the call-graph closure of the functions this property analysed
            rep.instances = [i for i in rep.instances if not i.rule.startswith('R-STATE.c')]
            rep.extra.pop('hidden_state_inventory', None)
            roots = _roots_of(ctx, rep)
            state.check_hidden_state(ctx, rep, roots=roots)
            rep.extra['hidden_state_scope'] = len(state.reachable_functions(ctx, roots))
            rep.clauses_decided.append('no cross-call memo (module-level container, memoising decorator, mutable default) is reachable from the operations of this property (R-STATE c on the call-graph closure)')
        # identity-bearing encodings (names of composite states, __eq__, look-up keys) and the input word, on the same closure
        from .rules import inj
        scope = state.reachable_functions(ctx, _roots_of(ctx, rep))
        inj.check_scope(ctx, rep, scope)
        # class invariants of the automaton classes that the operations of this property construct
        if not any(i.rule == 'R-BUILD.inv' for i in rep.instances):
            built = set()
            for f0 in scope.values():
                for g0 in [f0] + list(f0.nested.values()):
                    for c0 in ctx.prog.calls_in(g0):
                        r0 = ctx.resolve_call(g0, c0)
                        if r0 is not None and r0.kind == 'class':
                            spec = '{}.{}'.format(r0.target.module.base[:-3], r0.target.name)
                            if spec in build.INVARIANTS:
                                built.add(spec)
            # ... and of the automata they take as operands (annotated parameters of the analysed functions)
            for f0 in _roots_of(ctx, rep):
                for p0 in f0.pos_params:
                    if p0.annotation is not None:
                        r0 = ctx.prog.resolve_expr(f0, f0.module, p0.annotation) if isinstance(p0.annotation, (ast.Name, ast.Attribute)) else None
                        if r0 is not None and r0.kind == 'class':
                            spec = '{}.{}'.format(r0.target.module.base[:-3], r0.target.name)
                            if spec in build.INVARIANTS:
                                built.add(spec)
            if built:
                build.check_invariants(ctx, rep, only=built)
                rep.clauses_decided.append('the class invariants of the automata these operations construct ({}) are asserted in canonical form and checked by default on construction (R-BUILD.inv)'.format(', '.join(sorted(built))))
        from .rules import sorts
        sfuncs = []
        for f0 in scope.values():
            st = [f0]
            while st:
                g0 = st.pop()
                sfuncs.append(g0)
                st.extend(g0.nested.values())
        sorts.check_sorts(ctx, rep, sfuncs)
        work.check_recursive_memo(ctx, rep, sfuncs)
        work.check_abandoned(ctx, rep, sfuncs)
        # reads of the partial transition maps (NFA / PDA / TM) are guarded in every function the operations reach
        seen_c = {i.where for i in rep.instances if i.rule == 'R-EFFECT.c'}
        effect.check_guarded_reads(ctx, rep, [g0 for g0 in sfuncs if not g0.name.endswith('_in_place') and g0.short not in seen_c and g0.module.base.endswith('_algorithms.py')])
        effect.check_scope_operands(ctx, rep, _roots_of(ctx, rep))
        effect.check_shared_entries(ctx, rep, sfuncs)
        fresh.check_epsilon_constants(ctx, rep, sfuncs)
        fresh.check_epsilon_forwarded(ctx, rep, sfuncs)
        fresh.check_word_symbols(ctx, rep, sfuncs)
        fresh.check_rekey_sites(ctx, rep, sfuncs)
        from .rules import truth
        truth.check_sentinel_truthiness(ctx, rep, sfuncs)
        truth.check_merging_comprehension(ctx, rep, sfuncs)
        # C19 speaks about operands, history and hash order, not about which rules an operation keeps: no equality instances there
        sorts.check_grammar_symbol_sorts(ctx, rep, sfuncs, equalities=(pid != 'C19'))
        rep.clauses_decided.append('the declared sorts State / Symbol / Direction (NewTypes of the repository) are respected in memberships, comparisons, set algebra, mapping keys and arguments inside the operations of this property (R-SORT)')
        rep.clauses_decided.append('encodings that carry identity inside the operations of this property are injective: names of composite states, __eq__ of the value classes, look-up keys built from printed forms; the input word is consumed unmodified (R-INJ on the call-graph closure)')
    return wrapped


REGISTRY = {
    'C01': check_C01, 'C02': check_C02, 'C03': check_C03, 'C04': check_C04, 'C05': check_C05, 'C06': check_C06, 'C07': check_C07, 'C08': check_C08, 'C09': check_C09, 'C10': check_C10,
    'C11': check_C11, 'C12': check_C12, 'C13': check_C13, 'C16': check_C16, 'C17': check_C17, 'C14': check_C14, 'C15': check_C15, 'C18': check_C18, 'C19': check_C19, 'C20': check_C20,
}

REGISTRY = {k: _with_hidden_state(k, v) for k, v in REGISTRY.items()}
