"""E3 -- alias and effect analysis.

Abstract objects (nodes):
  ('P', i, path)   parameter i followed along an access path (field names, '[]' = element / value / key)
  ('A', site)      allocation site (shallow-fresh container or object), contents tracked in the heap
  ('D', site)      deep-fresh blob (result of copy.deepcopy): every sub-object is the blob itself
  ('G', name)      module-level object / class attribute

Variables are flow-sensitive (strong updates on the statement CFG), the heap is flow-insensitive with
weak updates.  Immutable values (by inferred type) produce no node.  Function summaries (MUT, RET,
stores, globals) are computed by chaotic iteration over the whole package until stable.
"""
import ast
from typing import Dict, List, Optional, Set, Tuple

from .cfg import cfg_of
from .model import AnalysisError, DRAWING, norm
from .types import members, elem_type, is_kind, ANY

MAXDEPTH = 5
EL = '[]'

MUTATORS = {'add', 'remove', 'discard', 'pop', 'clear', 'update', 'difference_update', 'intersection_update',
            'symmetric_difference_update', 'append', 'extend', 'insert', 'sort', 'reverse', 'setdefault', 'popitem'}
GROW_ONE = {'add', 'append'}
GROW_MANY = {'update', 'extend'}
PURE_STR = {'format', 'join', 'split', 'strip', 'lstrip', 'rstrip', 'upper', 'lower', 'replace', 'startswith', 'endswith',
            'isupper', 'islower', 'splitlines', 'getvalue', 'write', 'close', 'index', 'count', 'isdisjoint', 'issubset',
            'issuperset', 'group', 'render', 'find', 'encode', 'decode', 'title', 'isdigit', 'isalpha'}
SET_OPS = {'union', 'intersection', 'difference', 'symmetric_difference'}

IMMUTABLE_CLASS_BASES = {'str', 'int', 'tuple', 'frozenset'}


class Summary:
    def __init__(self):
        self.mut: Set[Tuple[int, tuple]] = set()
        self.ret_roots: Set[tuple] = set()
        self.ret_reach: Dict[tuple, Set[tuple]] = {}
        self.stores: Set[tuple] = set()      # (i, path, label, spec)
        self.gwrites: Set[str] = set()
        self.greads: Set[str] = set()
        self.mut_sites: Dict[Tuple[int, tuple], List[tuple]] = {}
        self.gwrite_sites: Dict[str, List[tuple]] = {}
        self.unresolved = 0
        self.calls = 0

    def sig(self):
        return (frozenset(self.mut), frozenset(self.ret_roots),
                frozenset((k, frozenset(v)) for k, v in self.ret_reach.items()),
                frozenset(self.stores), frozenset(self.gwrites), frozenset(self.greads))


class Effects:
    def __init__(self, ctx):
        self.ctx = ctx
        self.prog = ctx.prog
        self.typer = ctx.typer
        self.summaries: Dict[str, Summary] = {}
        self.analyses: Dict[str, 'Unit'] = {}
        self._imm_cache = {}
        self._solve()

    # -- type helpers ------------------------------------------------------------------
    def immutable(self, t) -> bool:
        """True if values of type t are certainly immutable (no node needed)."""
        if t is None:
            return False
        key = t
        if key in self._imm_cache:
            return self._imm_cache[key]
        self._imm_cache[key] = False
        res = self._immutable(t)
        self._imm_cache[key] = res
        return res

    def _immutable(self, t):
        k = t[0]
        if k in ('str', 'int', 'bool', 'none', 'callable'):
            return True
        if k == 'frozenset':
            return self.immutable(t[1])
        if k == 'tuple':
            return t[1] is not None and all(self.immutable(x) for x in t[1])
        if k == 'union':
            return all(self.immutable(x) for x in t[1])
        if k == 'cls':
            c = self.prog.classes.get(t[1])
            if c is None:
                return False
            return any(b in IMMUTABLE_CLASS_BASES for b in c.base_names)
        return False

    def step_type(self, t, label):
        if t is None:
            return None
        out = []
        from .types import union
        for m in members(t):
            if label == EL:
                if m[0] in ('dict', 'defaultdict'):
                    out.append(union(m[1], m[2]))
                elif m[0] in ('set', 'frozenset', 'list', 'iter'):
                    out.append(m[1])
                elif m[0] == 'tuple':
                    out.append(union(*m[1]) if m[1] else ANY)
                else:
                    out.append(ANY)
            else:
                if m[0] == 'cls':
                    c = self.prog.classes.get(m[1])
                    ft = self.typer.field_type(c, label) if c is not None else None
                    out.append(ft or ANY)
                else:
                    out.append(ANY)
        return union(*out) if out else None

    # -- solving -----------------------------------------------------------------------
    def in_scope(self, f):
        base = f.module.base[:-3]
        return base not in DRAWING

    def _solve(self):
        funcs = [f for f in self.prog.functions.values() if f.parent is None and self.in_scope(f)]
        for f in funcs:
            self.summaries[f.qualname] = Summary()
        for rnd in range(12):
            changed = False
            for f in funcs:
                unit = Unit(self, f)
                s = unit.run()
                if s.sig() != self.summaries[f.qualname].sig():
                    changed = True
                self.summaries[f.qualname] = s
                self.analyses[f.qualname] = unit
            if not changed:
                self.rounds = rnd + 1
                return
        raise AnalysisError('effect summaries did not stabilise')

    def summary(self, f) -> Optional[Summary]:
        g = f
        while g.parent is not None:
            g = g.parent
        return self.summaries.get(g.qualname)

    def unit(self, f) -> Optional['Unit']:
        g = f
        while g.parent is not None:
            g = g.parent
        return self.analyses.get(g.qualname)


def _site(e, tag=''):
    return (getattr(e, 'lineno', 0), getattr(e, 'col_offset', 0), tag)


class Unit:
    """Analysis of one top-level function (or method) together with its nested functions."""

    def __init__(self, eff: Effects, f):
        self.eff = eff
        self.ctx = eff.ctx
        self.prog = eff.prog
        self.f = f
        self.heap: Dict[tuple, Set[tuple]] = {}
        self.varsum: Dict[str, Dict[str, Set[tuple]]] = {}     # func qualname -> var -> nodes (flow-insensitive)
        self.nested_args: Dict[str, Dict[int, Set[tuple]]] = {}
        self.nested_ret: Dict[str, Set[tuple]] = {}
        self.sum = Summary()
        self.changed = False
        self.ptypes = {}
        for i, p in enumerate(f.pos_params):
            t = self.eff.typer.parse_annotation(f.module, f, p.annotation)
            if p.arg == 'self' and f.cls is not None and i == 0:
                t = ('cls', f.cls.qualname)
            self.ptypes[i] = t

    # -- node helpers --------------------------------------------------------------------
    def node_type(self, n):
        if n[0] != 'P':
            return None
        t = self.ptypes.get(n[1])
        for l in n[2]:
            if l == '*':
                return None
            t = self.eff.step_type(t, l)
            if t is None:
                return None
        return t

    def step(self, n, label) -> Set[tuple]:
        out = set()
        if n[0] == 'P':
            path = n[2]
            if path and path[-1] == '*':
                out.add(n)
            elif len(path) >= MAXDEPTH:
                out.add(('P', n[1], path + ('*',)))
            else:
                m = ('P', n[1], path + (label,))
                t = self.node_type(m)
                if not self.eff.immutable(t):
                    out.add(m)
            out |= self.heap.get((n, label), set())
        elif n[0] == 'A':
            out |= self.heap.get((n, label), set())
            tag = n[1][-1]
            if isinstance(tag, str) and tag.startswith('ret') and tag.count('/') < 2 and not out:
                # sub-object of a fresh callee result that the summary did not describe: lazily fresh
                out.add(('A', n[1][:-1] + (tag + '/' + label,)))
        elif n[0] == 'D':
            out.add(n)
        elif n[0] == 'G':
            out.add(('G', n[1] + ('.' + label if label != EL else '[]')))
        return out

    def steps(self, nodes, label):
        out = set()
        for n in nodes:
            out |= self.step(n, label)
        return out

    def add_edge(self, n, label, vals):
        if not vals:
            return
        if n[0] in ('D',):
            return
        if n[0] == 'G':
            return
        cur = self.heap.setdefault((n, label), set())
        new = set(vals) - cur
        if new:
            cur |= new
            self.changed = True

    def record_mut(self, nodes, at, desc, func):
        for n in nodes:
            if n[0] == 'P':
                path = n[2]
                key = (n[1], path)
                if key not in self.sum.mut:
                    self.sum.mut.add(key)
                self.sum.mut_sites.setdefault(key, [])
                entry = (func.short, norm(at) if not isinstance(at, str) else at, desc, getattr(at, 'lineno', None))
                if entry not in self.sum.mut_sites[key]:
                    self.sum.mut_sites[key].append(entry)
            elif n[0] == 'G':
                self.sum.gwrites.add(n[1])
                entry = (func.short, norm(at) if not isinstance(at, str) else at, desc, getattr(at, 'lineno', None))
                lst = self.sum.gwrite_sites.setdefault(n[1], [])
                if entry not in lst:
                    lst.append(entry)

    def fresh(self, e, tag='', elems=None):
        n = ('A', (self._cur_func.qualname,) + _site(e, tag))
        if elems:
            self.add_edge(n, EL, elems)
        return n

    # -- driver --------------------------------------------------------------------------
    def run(self) -> Summary:
        all_funcs = [self.f]
        stack = [self.f]
        while stack:
            g = stack.pop()
            for nf in g.nested.values():
                all_funcs.append(nf)
                stack.append(nf)
        for g in all_funcs:
            self.varsum.setdefault(g.qualname, {})
            self.nested_args.setdefault(g.qualname, {})
            self.nested_ret.setdefault(g.qualname, set())
        for it in range(20):
            self.changed = False
            for g in all_funcs:
                self._flow(g)
            if not self.changed:
                break
        else:
            raise AnalysisError('effect analysis of {} did not converge'.format(self.f.qualname))
        self._summarise()
        return self.sum

    def _summarise(self):
        roots = self.nested_ret[self.f.qualname]
        for n in roots:
            if n[0] == 'P':
                self.sum.ret_roots.add(n)
            elif n[0] == 'D':
                self.sum.ret_roots.add(('DEEP',))
            elif n[0] == 'G':
                self.sum.ret_roots.add(n)
            else:
                self.sum.ret_roots.add(('FRESH',))
                # reachability from fresh roots
                seen = {n}
                frontier = [(n, ())]
                while frontier:
                    m, lp = frontier.pop()
                    if len(lp) >= 4:
                        continue
                    for (src, lab), vals in list(self.heap.items()):
                        if src != m:
                            continue
                        for v in vals:
                            if v[0] in ('P', 'G'):
                                self.sum.ret_reach.setdefault(lp + (lab,), set()).add(v)
                            elif v[0] == 'A' and v not in seen:
                                seen.add(v)
                                frontier.append((v, lp + (lab,)))
        for (src, lab), vals in self.heap.items():
            if src[0] == 'P':
                for v in vals:
                    if v[0] == 'P':
                        self.sum.stores.add((src[1], src[2], lab, v))
                    elif v[0] in ('A', 'D'):
                        self.sum.stores.add((src[1], src[2], lab, ('FRESH',)))

    # -- intra-procedural dataflow -------------------------------------------------------------
    def _flow(self, g):
        cfg = cfg_of(g.node)
        self._cur_func = g
        self._env = self.ctx.env(g)
        init = {}
        is_top = g is self.f
        for i, p in enumerate(g.pos_params):
            if is_top:
                n = ('P', i, ())
                t = self.ptypes.get(i)
                init[p.arg] = set() if self.eff.immutable(t) else {n}
            else:
                init[p.arg] = set(self.nested_args[g.qualname].get(i, set()))
        for p in g.node.args.kwonlyargs:
            init.setdefault(p.arg, set())
        if g.node.args.vararg:
            init.setdefault(g.node.args.vararg.arg, set())
        if g.node.args.kwarg:
            init.setdefault(g.node.args.kwarg.arg, set())
        states: Dict[int, Dict[str, frozenset]] = {cfg.entry: {k: frozenset(v) for k, v in init.items()}}
        work = [cfg.entry]
        vs = self.varsum[g.qualname]
        for k, v in init.items():
            self._varsum_add(vs, k, v)
        iters = 0
        while work:
            iters += 1
            if iters > 20000:
                raise AnalysisError('dataflow did not converge in {}'.format(g.qualname))
            nid = work.pop()
            st = dict(states[nid])
            node = cfg.node[nid]
            self._state = st
            self._transfer(node, st, g)
            for k, v in st.items():
                self._varsum_add(vs, k, v)
            for (s, lab) in cfg.succ[nid]:
                old = states.get(s)
                if old is None:
                    states[s] = dict(st)
                    work.append(s)
                else:
                    ch = False
                    for k, v in st.items():
                        ov = old.get(k)
                        if ov is None:
                            old[k] = frozenset(v)
                            ch = True
                        elif not (set(v) <= ov):
                            old[k] = ov | frozenset(v)
                            ch = True
                    if ch:
                        work.append(s)

    def _varsum_add(self, vs, k, v):
        cur = vs.setdefault(k, set())
        new = set(v) - cur
        if new:
            cur |= new
            self.changed = True

    def _lookup(self, name) -> Set[tuple]:
        st = self._state
        if name in st:
            return set(st[name])
        g = self._cur_func.parent
        while g is not None:
            vs = self.varsum.get(g.qualname, {})
            if name in vs:
                return set(vs[name])
            g = g.parent
        # locals not yet assigned on this path
        if name in self.varsum.get(self._cur_func.qualname, {}) and name in self._locals(self._cur_func):
            return set()
        r = self.prog.resolve_name(self._cur_func, self._cur_func.module, name)
        if r is None:
            return set()
        if r.kind == 'global':
            m, gname = r.target
            v = m.globals.get(gname)
            if isinstance(v, (ast.Constant, ast.JoinedStr)) or (isinstance(v, ast.Call) and isinstance(v.func, ast.Name) and v.func.id in ('NewType',)):
                return set()
            self.sum.greads.add('{}.{}'.format(m.name, gname))
            return {('G', '{}.{}'.format(m.name, gname))}
        if r.kind == 'class':
            return {('G', 'class:' + r.target.qualname)}
        return set()

    _locals_cache: Dict[str, Set[str]] = {}

    def _locals(self, g):
        k = g.qualname + str(id(g.node))
        if k not in Unit._locals_cache:
            from .astutil import assigned_names
            s = set(g.params)
            for n in g.body_nodes(include_nested=False):
                if isinstance(n, ast.stmt) or isinstance(n, ast.comprehension):
                    if isinstance(n, ast.comprehension):
                        for x in ast.walk(n.target):
                            if isinstance(x, ast.Name):
                                s.add(x.id)
                    else:
                        s |= assigned_names(n)
            Unit._locals_cache[k] = s
        return Unit._locals_cache[k]

    # -- statements -----------------------------------------------------------------------------
    def _transfer(self, node, st, g):
        s = node.stmt
        if s is None:
            return
        k = node.kind
        if k in ('test', 'assert'):
            self.ev(node.expr)
            return
        if k == 'for':
            vals = self.ev(node.expr)
            self.bind(s.target, self.steps(vals, EL), s)
            return
        if k == 'with':
            for it in s.items:
                v = self.ev(it.context_expr)
                if it.optional_vars is not None:
                    self.bind(it.optional_vars, v, s, whole=True)
            return
        if k in ('def', 'except'):
            return
        if isinstance(s, ast.Assign):
            if len(s.targets) == 1 and isinstance(s.targets[0], (ast.Tuple, ast.List)) and isinstance(s.value, (ast.Tuple, ast.List)) \
                    and len(s.targets[0].elts) == len(s.value.elts) and not any(isinstance(x, ast.Starred) for x in s.targets[0].elts + s.value.elts):
                # a, b = x, y : pairwise (all right-hand sides first), not "every target may be any of the values"
                vals = [self.ev(x) for x in s.value.elts]
                for t, v in zip(s.targets[0].elts, vals):
                    self.assign(t, v, s)
                return
            v = self.ev(s.value)
            for t in s.targets:
                self.assign(t, v, s)
        elif isinstance(s, ast.AnnAssign):
            if s.value is not None:
                self.assign(s.target, self.ev(s.value), s)
        elif isinstance(s, ast.AugAssign):
            self.augassign(s)
        elif isinstance(s, ast.Return):
            if s.value is not None:
                v = self.ev(s.value)
                cur = self.nested_ret[g.qualname]
                new = v - cur
                if new:
                    cur |= new
                    self.changed = True
        elif isinstance(s, ast.Expr):
            self.ev(s.value)
        elif isinstance(s, ast.Delete):
            for t in s.targets:
                if isinstance(t, ast.Subscript):
                    self.record_mut(self.ev(t.value), s, 'del item', g)
                    self.ev(t.slice)
                elif isinstance(t, ast.Attribute):
                    self.record_mut(self.ev(t.value), s, 'del attribute', g)
        elif isinstance(s, ast.Raise):
            if s.exc is not None:
                self.ev(s.exc)
        elif isinstance(s, ast.Global):
            for name in s.names:
                self._state[name] = frozenset({('G', '{}.{}'.format(g.module.name, name))})
                self._global_names = getattr(self, '_global_names', set()) | {name}

    def assign(self, target, vals, stmt):
        g = self._cur_func
        if isinstance(target, ast.Name):
            if target.id in getattr(self, '_global_names', set()):
                self.record_mut({('G', '{}.{}'.format(g.module.name, target.id))}, stmt, 'assignment to module global', g)
                return
            self._state[target.id] = frozenset(vals)
        elif isinstance(target, (ast.Tuple, ast.List)):
            el = self.steps(vals, EL)
            for t in target.elts:
                if isinstance(t, ast.Starred):
                    self.assign(t.value, el, stmt)
                else:
                    self.assign(t, el, stmt)
        elif isinstance(target, ast.Attribute):
            objs = self.ev(target.value)
            self.record_mut(objs, stmt, 'store to field .{}'.format(target.attr), g)
            for o in objs:
                self.add_edge(o, target.attr, vals)
        elif isinstance(target, ast.Subscript):
            objs = self.ev(target.value)
            kv = self.ev(target.slice)
            self.record_mut(objs, stmt, 'item assignment', g)
            for o in objs:
                self.add_edge(o, EL, vals | kv)

    def bind(self, target, elems, stmt, whole=False):
        if isinstance(target, ast.Name):
            self._state[target.id] = frozenset(elems)
        elif isinstance(target, (ast.Tuple, ast.List)):
            sub = self.steps(elems, EL)
            for t in target.elts:
                self.bind(t.value if isinstance(t, ast.Starred) else t, sub, stmt)
        else:
            self.assign(target, elems, stmt)

    def _rebinding_kind(self, e):
        t = self._env.type_of(e)
        return t is not None and self.eff.immutable(t)

    def augassign(self, s):
        g = self._cur_func
        tgt = s.target
        rhs = self.ev(s.value)
        if isinstance(tgt, ast.Name):
            if self._rebinding_kind(tgt) or self._rebinding_kind(s.value):
                return
            cur = self._lookup(tgt.id)
            if not cur:
                return
            t = self._env.type_of(tgt)
            if t is not None and not any(m[0] in ('set', 'list', 'dict', 'defaultdict', 'any') for m in members(t)):
                return
            self.record_mut(cur, s, 'augmented assignment {}='.format(type(s.op).__name__), g)
            for o in cur:
                self.add_edge(o, EL, self.steps(rhs, EL))
            return
        if isinstance(tgt, ast.Subscript):
            objs = self.ev(tgt.value)
            self.ev(tgt.slice)
            inner = self.steps(objs, EL)
            if self._rebinding_kind(tgt):
                self.record_mut(objs, s, 'item assignment (augmented)', g)
                return
            self.record_mut(objs, s, 'item assignment (augmented)', g)
            self.record_mut(inner, s, 'in-place {}= on the stored value'.format(type(s.op).__name__), g)
            for o in inner:
                self.add_edge(o, EL, self.steps(rhs, EL))
            if isinstance(tgt.value, ast.Name):
                # defaultdict: value may have been created by the lookup
                pass
            return
        if isinstance(tgt, ast.Attribute):
            objs = self.ev(tgt.value)
            self.record_mut(objs, s, 'store to field .{} (augmented)'.format(tgt.attr), g)
            if not self._rebinding_kind(tgt):
                inner = self.steps(objs, tgt.attr)
                self.record_mut(inner, s, 'in-place {}= on field value'.format(type(s.op).__name__), g)
                for o in inner:
                    self.add_edge(o, EL, self.steps(rhs, EL))

    # -- expressions ----------------------------------------------------------------------------
    def ev(self, e) -> Set[tuple]:
        if e is None:
            return set()
        m = getattr(self, '_ev_' + type(e).__name__, None)
        if m is None:
            out = set()
            for c in ast.iter_child_nodes(e):
                if isinstance(c, ast.expr):
                    out |= self.ev(c)
            return set()
        return m(e)

    def _prune(self, e, vals):
        if not vals:
            return vals
        t = self._env.type_of(e)
        if t is not None and self.eff.immutable(t):
            return set()
        return vals

    def _ev_Constant(self, e):
        return set()

    def _ev_JoinedStr(self, e):
        for v in e.values:
            if isinstance(v, ast.FormattedValue):
                self.ev(v.value)
        return set()

    def _ev_Name(self, e):
        return self._prune(e, self._lookup(e.id))

    def _ev_Attribute(self, e):
        base = self.ev(e.value)
        if not base:
            r = self.prog.resolve_expr(self._cur_func, self._cur_func.module, e)
            if r is not None and r.kind == 'classattr':
                c, attr = r.target
                name = 'class:{}.{}'.format(c.qualname, attr)
                self.sum.greads.add(name)
                return set()
            return set()
        out = set()
        for n in base:
            if n[0] == 'G' and n[1].startswith('class:'):
                self.sum.greads.add(n[1] + '.' + e.attr)
        out = self.steps(base, e.attr)
        return self._prune(e, out)

    def _ev_Subscript(self, e):
        base = self.ev(e.value)
        self.ev(e.slice)
        if isinstance(e.slice, ast.Slice):
            t = self._env.type_of(e.value)
            if t is not None and is_kind(t, 'str'):
                return set()
            return {self.fresh(e, 'slice', self.steps(base, EL))}
        return self._prune(e, self.steps(base, EL))

    def _ev_Slice(self, e):
        for x in (e.lower, e.upper, e.step):
            if x is not None:
                self.ev(x)
        return set()

    def _ev_Starred(self, e):
        return self.ev(e.value)

    def _container(self, e, elts, tag):
        vals = set()
        for x in elts:
            if x is None:
                continue
            if isinstance(x, ast.Starred):
                vals |= self.steps(self.ev(x.value), EL)
            else:
                vals |= self.ev(x)
        return {self.fresh(e, tag, vals)}

    def _ev_Set(self, e):
        return self._container(e, e.elts, 'set')

    def _ev_List(self, e):
        return self._container(e, e.elts, 'list')

    def _ev_Tuple(self, e):
        vals = set()
        for x in e.elts:
            vals |= self.steps(self.ev(x.value), EL) if isinstance(x, ast.Starred) else self.ev(x)
        if not vals:
            return set()
        return {self.fresh(e, 'tuple', vals)}

    def _ev_Dict(self, e):
        return self._container(e, list(e.keys) + list(e.values), 'dict')

    def _comp(self, e, elts, tag):
        saved = dict(self._state)
        for gen in e.generators:
            it = self.ev(gen.iter)
            self.bind(gen.target, self.steps(it, EL), e)
            for c in gen.ifs:
                self.ev(c)
        vals = set()
        for x in elts:
            vals |= self.ev(x)
        # comprehension variables are local to the comprehension
        for k in list(self._state.keys()):
            if k not in saved:
                del self._state[k]
            else:
                self._state[k] = saved[k]
        return {self.fresh(e, tag, vals)}

    def _ev_ListComp(self, e):
        return self._comp(e, [e.elt], 'listcomp')

    def _ev_SetComp(self, e):
        return self._comp(e, [e.elt], 'setcomp')

    def _ev_GeneratorExp(self, e):
        return self._comp(e, [e.elt], 'genexp')

    def _ev_DictComp(self, e):
        return self._comp(e, [e.key, e.value], 'dictcomp')

    def _ev_IfExp(self, e):
        self.ev(e.test)
        return self.ev(e.body) | self.ev(e.orelse)

    def _ev_BoolOp(self, e):
        out = set()
        for v in e.values:
            out |= self.ev(v)
        return self._prune(e, out)

    def _ev_UnaryOp(self, e):
        self.ev(e.operand)
        return set()

    def _ev_Compare(self, e):
        self.ev(e.left)
        for c in e.comparators:
            self.ev(c)
        return set()

    def _ev_BinOp(self, e):
        l = self.ev(e.left)
        r = self.ev(e.right)
        t = self._env.type_of(e)
        if t is not None and self.eff.immutable(t):
            return set()
        if not l and not r:
            lt = self._env.type_of(e.left)
            if lt is None or not any(m[0] in ('set', 'list', 'dict', 'frozenset') for m in members(lt)):
                return set()
        return {self.fresh(e, 'binop', self.steps(l, EL) | self.steps(r, EL))}

    def _ev_Lambda(self, e):
        saved = dict(self._state)
        for a in e.args.args:
            self._state[a.arg] = frozenset()
        self.ev(e.body)
        self._state.clear()
        self._state.update(saved)
        return set()

    def _ev_NamedExpr(self, e):
        v = self.ev(e.value)
        self.assign(e.target, v, e)
        return v

    def _ev_Yield(self, e):
        v = self.ev(e.value) if e.value is not None else set()
        g = self._cur_func
        gen = ('A', (g.qualname, 0, 0, 'generator'))
        self.add_edge(gen, EL, v)
        cur = self.nested_ret[g.qualname]
        if gen not in cur:
            cur.add(gen)
            self.changed = True
        return set()

    def _ev_Await(self, e):
        return self.ev(e.value)

    def _ev_FormattedValue(self, e):
        self.ev(e.value)
        return set()

    # -- calls ------------------------------------------------------------------------------------
    def _args(self, call):
        pos = []
        for a in call.args:
            if isinstance(a, ast.Starred):
                pos.append(('star', self.ev(a.value)))
            else:
                pos.append(('pos', self.ev(a)))
        kw = {}
        for k in call.keywords:
            v = self.ev(k.value)
            if k.arg is not None:
                kw[k.arg] = v
        return pos, kw

    def _bind_actuals(self, target, pos, kw, self_nodes=None):
        """actual nodes per parameter index of ``target``"""
        params = [p.arg for p in target.pos_params]
        actual: Dict[int, Set[tuple]] = {}
        idx = 0
        if self_nodes is not None:
            actual[0] = set(self_nodes)
            idx = 1
        for kind, v in pos:
            if kind == 'star':
                el = self.steps(v, EL)
                for j in range(idx, len(params)):
                    actual.setdefault(j, set()).update(el)
                continue
            if idx < len(params):
                actual.setdefault(idx, set()).update(v)
            idx += 1
        for name, v in kw.items():
            if name in params:
                actual.setdefault(params.index(name), set()).update(v)
        return actual

    def _ext(self, nodes, path):
        cur = set(nodes)
        for l in path:
            if l == '*':
                break
            cur = self.steps(cur, l)
        return cur

    def _apply_summary(self, call, target, actual, summ: Summary):
        g = self._cur_func
        self.sum.greads |= summ.greads
        for gw in summ.gwrites:
            self.sum.gwrites.add(gw)
            lst = self.sum.gwrite_sites.setdefault(gw, [])
            entry = (g.short, norm(call), 'via call of {}'.format(target.name), getattr(call, 'lineno', None))
            if entry not in lst:
                lst.append(entry)
        for (i, path) in summ.mut:
            tgt = self._ext(actual.get(i, set()), path)
            # also the exact object when path is empty
            self.record_mut(tgt, call, 'callee {} mutates its parameter {}{}'.format(
                target.name, target.pos_params[i].arg if i < len(target.pos_params) else i,
                ''.join('.' + l if l != EL else '[]' for l in path)), g)
        def inst(spec):
            if spec[0] == 'P':
                return self._ext(actual.get(spec[1], set()), spec[2])
            if spec[0] == 'G':
                return {spec}
            return set()
        for (i, path, lab, spec) in summ.stores:
            objs = self._ext(actual.get(i, set()), path)
            if spec[0] == 'FRESH':
                vals = {('A', (g.qualname,) + _site(call, 'store:{}:{}'.format(i, lab)))}
            else:
                vals = inst(spec)
            for o in objs:
                self.add_edge(o, lab, vals)
        out = set()
        for r in summ.ret_roots:
            if r[0] == 'P':
                out |= inst(r)
            elif r[0] == 'G':
                out.add(r)
            elif r[0] == 'DEEP':
                out.add(('D', (g.qualname,) + _site(call, 'deep')))
            elif r[0] == 'FRESH':
                root = ('A', (g.qualname,) + _site(call, 'ret'))
                out.add(root)
                for lp, specs in summ.ret_reach.items():
                    cur = root
                    for j, l in enumerate(lp[:-1]):
                        nxt = ('A', (g.qualname,) + _site(call, 'ret:' + '/'.join(lp[:j + 1])))
                        self.add_edge(cur, l, {nxt})
                        cur = nxt
                    vals = set()
                    for sp in specs:
                        vals |= inst(sp)
                    self.add_edge(cur, lp[-1], vals)
        return out

    def _ev_Call(self, e):
        g = self._cur_func
        self.sum.calls += 1
        fn = e.func
        ref = self.prog.resolve_call(g, g.module, e, self._env)
        # receiver for method calls
        recv = None
        if isinstance(fn, ast.Attribute) and (ref is None or ref.kind in ('method',) or (ref.kind == 'func' and ref.target.cls is not None)):
            recv = self.ev(fn.value)
        pos, kw = self._args(e)
        all_arg_nodes = set()
        for _, v in pos:
            all_arg_nodes |= v
        for v in kw.values():
            all_arg_nodes |= v
        if ref is None:
            self.sum.unresolved += 1
            return set()
        if ref.kind == 'func':
            target = ref.target
            top = target
            while top.parent is not None:
                top = top.parent
            if top is self.f or (target.parent is not None):
                # nested function of this unit (or sibling): bind and use running return value
                if target.qualname in self.nested_args:
                    actual = self._bind_actuals(target, pos, kw, recv if target.cls is not None else None)
                    na = self.nested_args[target.qualname]
                    for i, v in actual.items():
                        cur = na.setdefault(i, set())
                        new = v - cur
                        if new:
                            cur |= new
                            self.changed = True
                    return set(self.nested_ret[target.qualname])
            summ = self.eff.summaries.get(top.qualname)
            if summ is None:
                self.sum.unresolved += 1
                return set()
            self_nodes = None
            if target.cls is not None and target.pos_params and target.pos_params[0].arg == 'self':
                self_nodes = recv if recv is not None else set()
            actual = self._bind_actuals(target, pos, kw, self_nodes)
            return self._apply_summary(e, target, actual, summ)
        if ref.kind == 'class':
            c = ref.target
            obj = self.fresh(e, 'new:' + c.name)
            if any(b in IMMUTABLE_CLASS_BASES for b in c.base_names):
                return set()
            init = self.prog.find_method(c, '__init__')
            if init is not None:
                summ = self.eff.summaries.get(init.qualname)
                if summ is not None:
                    actual = self._bind_actuals(init, pos, kw, {obj})
                    # default arguments that are shared mutable objects
                    self._apply_summary(e, init, actual, summ)
            return {obj}
        if ref.kind == 'global':
            return set()
        if ref.kind == 'local':
            # calling a parameter (callback): elements may flow; treat as pure
            return set()
        name = ref.name
        if ref.kind == 'builtin':
            a0 = pos[0][1] if pos else set()
            if name in ('set', 'frozenset', 'list', 'sorted', 'tuple', 'reversed', 'iter', 'dict', 'enumerate', 'zip', 'filter'):
                el = set()
                for i, (_, v) in enumerate(pos):
                    if name == 'filter' and i == 0:
                        continue
                    el |= self.steps(v, EL)
                if name in ('enumerate', 'zip'):
                    return {self.fresh(e, name, {self.fresh(e, name + ':t', el)} if el else set())}
                return {self.fresh(e, name, el)}
            if name in ('next', 'min', 'max', 'sum'):
                out = set()
                if len(pos) == 1 or name == 'next':
                    out = self.steps(a0, EL)
                    if name == 'next' and len(pos) > 1:
                        out |= pos[1][1]
                else:
                    for _, v in pos:
                        out |= v
                return self._prune(e, out)
            if name == 'map':
                f0 = e.args[0] if e.args else None
                el = set()
                for _, v in pos[1:]:
                    el |= self.steps(v, EL)
                r = self.prog.resolve_expr(g, g.module, f0) if isinstance(f0, (ast.Name, ast.Attribute)) else None
                if r is not None and r.kind == 'func':
                    t = r.target
                    if t.qualname in self.nested_args:
                        na = self.nested_args[t.qualname]
                        cur = na.setdefault(0, set())
                        if el - cur:
                            cur |= el
                            self.changed = True
                        return {self.fresh(e, 'map', set(self.nested_ret[t.qualname]))}
                    summ = self.eff.summaries.get(t.qualname)
                    if summ is not None:
                        res = self._apply_summary(e, t, {0: el}, summ)
                        return {self.fresh(e, 'map', res)}
                return {self.fresh(e, 'map', set())}
            if name in ('getattr',):
                return set()
            if name == 'setattr':
                self.record_mut(a0, e, 'setattr', g)
                return set()
            return set()
        if ref.kind == 'external':
            a0 = pos[0][1] if pos else set()
            if name == 'copy.deepcopy':
                return {('D', (g.qualname,) + _site(e, 'deepcopy'))} if (a0 or True) else set()
            if name == 'copy.copy':
                out = set()
                for n in a0:
                    c = self.fresh(e, 'copy')
                    for (src, lab), vals in list(self.heap.items()):
                        if src == n:
                            self.add_edge(c, lab, vals)
                    if n[0] == 'P':
                        self.add_edge(c, EL, self.step(n, EL))
                    out.add(c)
                return out
            if name == 'collections.defaultdict':
                d = self.fresh(e, 'defaultdict')
                dv = self.fresh(e, 'defaultvalue')
                f0 = e.args[0] if e.args else None
                if f0 is not None and not (isinstance(f0, ast.Name) and f0.id in ('int', 'str', 'bool', 'float')):
                    self.add_edge(d, EL, {dv})
                return {d}
            if name.startswith('itertools.'):
                el = set()
                for _, v in pos:
                    el |= self.steps(v, EL)
                if name == 'itertools.chain.from_iterable':
                    return {self.fresh(e, 'chain', self.steps(el, EL))}
                if name == 'itertools.groupby':
                    return {self.fresh(e, 'groupby', {self.fresh(e, 'groupby:t', el)} if el else set())}
                return {self.fresh(e, 'itertools', {self.fresh(e, 'itertools:t', el)} if el else set())}
            return set()
        if ref.kind == 'method':
            mname = ref.name
            recv = recv if recv is not None else set()
            if mname in MUTATORS:
                rt = self._env.type_of(fn.value) if isinstance(fn, ast.Attribute) else None
                # str.pop etc. do not exist; any receiver with nodes is a container or object
                if recv:
                    self.record_mut(recv, e, 'call of mutator .{}()'.format(mname), g)
                if mname in GROW_ONE:
                    for o in recv:
                        self.add_edge(o, EL, pos[0][1] if pos else set())
                    return set()
                if mname == 'insert':
                    for o in recv:
                        self.add_edge(o, EL, pos[1][1] if len(pos) > 1 else set())
                    return set()
                if mname in GROW_MANY or mname.endswith('_update'):
                    for o in recv:
                        for _, v in pos:
                            self.add_edge(o, EL, self.steps(v, EL))
                    return set()
                if mname in ('pop', 'popitem'):
                    return self._prune(e, self.steps(recv, EL))
                if mname == 'setdefault':
                    for o in recv:
                        self.add_edge(o, EL, pos[1][1] if len(pos) > 1 else set())
                    return self._prune(e, self.steps(recv, EL) | (pos[1][1] if len(pos) > 1 else set()))
                return set()
            if mname == 'copy':
                return {self.fresh(e, 'copy', self.steps(recv, EL))}
            if mname in ('items',):
                el = self.steps(recv, EL)
                return {self.fresh(e, 'items', {self.fresh(e, 'items:t', el)} if el else set())}
            if mname in ('values', 'keys'):
                return {self.fresh(e, mname, self.steps(recv, EL))}
            if mname == 'get':
                out = self.steps(recv, EL)
                if len(pos) > 1:
                    out |= pos[1][1]
                return self._prune(e, out)
            if mname in SET_OPS:
                el = self.steps(recv, EL)
                for kind, v in pos:
                    if kind == 'star':
                        el |= self.steps(self.steps(v, EL), EL)
                    else:
                        el |= self.steps(v, EL)
                return {self.fresh(e, mname, el)}
            if mname in PURE_STR:
                return set()
            if mname == '__init__':
                return set()
            self.sum.unresolved += 1
            return set()
        return set()
