"""The analyser's own tiny evaluator for *extracted* expressions (index arithmetic, comparisons,
boolean conditions over named atoms).  It evaluates finite models built from syntax; it never
runs repository code.  Anything outside the fragment raises Unsupported."""
import ast


class Unsupported(Exception):
    pass


def ev(e, env, atoms=None):
    """env: name -> value; also 'len(<text>)' -> int.  atoms: optional dict from normalised text of a
    comparison (e.g. 'q1 in F1') to bool, consulted before structural evaluation."""
    if atoms is not None:
        t = ' '.join(ast.unparse(e).split())
        if t in atoms:
            return atoms[t]
    if isinstance(e, ast.Constant):
        return e.value
    if isinstance(e, ast.Name):
        if e.id in env:
            return env[e.id]
        raise Unsupported('name ' + e.id)
    if isinstance(e, ast.Tuple):
        return tuple(ev(x, env, atoms) for x in e.elts)
    if isinstance(e, ast.List):
        return [ev(x, env, atoms) for x in e.elts]
    if isinstance(e, ast.UnaryOp):
        v = ev(e.operand, env, atoms)
        if isinstance(e.op, ast.Not):
            return not v
        if isinstance(e.op, ast.USub):
            return -v
        raise Unsupported(ast.dump(e.op))
    if isinstance(e, ast.BoolOp):
        if isinstance(e.op, ast.And):
            r = True
            for v in e.values:
                r = ev(v, env, atoms)
                if not r:
                    return r
            return r
        r = False
        for v in e.values:
            r = ev(v, env, atoms)
            if r:
                return r
        return r
    if isinstance(e, ast.IfExp):
        return ev(e.body, env, atoms) if ev(e.test, env, atoms) else ev(e.orelse, env, atoms)
    if isinstance(e, ast.BinOp):
        a, b = ev(e.left, env, atoms), ev(e.right, env, atoms)
        op = type(e.op)
        if op is ast.Add:
            return a + b
        if op is ast.Sub:
            return a - b
        if op is ast.Mult:
            return a * b
        if op is ast.FloorDiv:
            return a // b
        raise Unsupported(op.__name__)
    if isinstance(e, ast.Compare) and len(e.ops) > 1 and atoms is not None:
        # a op1 b op2 c  is  (a op1 b) and (b op2 c): each link is looked up / evaluated on its own
        operands = [e.left] + list(e.comparators)
        for op, a, b in zip(e.ops, operands, operands[1:]):
            if not ev(ast.Compare(left=a, ops=[op], comparators=[b]), env, atoms):
                return False
        return True
    if isinstance(e, ast.Compare):
        vals = [ev(e.left, env, atoms)] + [ev(c, env, atoms) for c in e.comparators]
        for op, a, b in zip(e.ops, vals, vals[1:]):
            t = type(op)
            if t is ast.Lt:
                r = a < b
            elif t is ast.LtE:
                r = a <= b
            elif t is ast.Gt:
                r = a > b
            elif t is ast.GtE:
                r = a >= b
            elif t in (ast.Eq, ast.Is):
                r = a == b
            elif t in (ast.NotEq, ast.IsNot):
                r = a != b
            elif t is ast.In:
                r = a in b
            elif t is ast.NotIn:
                r = a not in b
            else:
                raise Unsupported(t.__name__)
            if not r:
                return False
        return True
    if isinstance(e, ast.Call):
        if isinstance(e.func, ast.Name):
            n = e.func.id
            if n == 'len' and len(e.args) == 1:
                k = 'len(' + ' '.join(ast.unparse(e.args[0]).split()) + ')'
                if k in env:
                    return env[k]
                v = ev(e.args[0], env, atoms)
                return len(v)
            if n in ('max', 'min') and e.args:
                vs = [ev(a, env, atoms) for a in e.args]
                return max(vs) if n == 'max' else min(vs)
            if n == 'range':
                vs = [ev(a, env, atoms) for a in e.args]
                return range(*vs)
            if n in env and callable(env[n]):
                return env[n](*[ev(a, env, atoms) for a in e.args])
            if len(e.args) == 1 and n[:1].isupper():
                # NewType-style wrappers: State('x'), Symbol('x'), Direction('R')
                return ev(e.args[0], env, atoms)
        raise Unsupported('call ' + ast.unparse(e))
    if isinstance(e, ast.Attribute):
        t = ' '.join(ast.unparse(e).split())
        if t in env:
            return env[t]
        raise Unsupported('attribute ' + t)
    if isinstance(e, ast.Subscript) and isinstance(e.slice, ast.Slice):
        base = ev(e.value, env, atoms)
        lo = ev(e.slice.lower, env, atoms) if e.slice.lower is not None else None
        hi = ev(e.slice.upper, env, atoms) if e.slice.upper is not None else None
        if e.slice.step is not None:
            raise Unsupported('slice step')
        return base[lo:hi]
    if isinstance(e, ast.Subscript):
        base = ev(e.value, env, atoms)
        return base[ev(e.slice, env, atoms)]
    raise Unsupported(type(e).__name__)


def slice_bounds(sub: ast.Subscript, env, n):
    """normalised (lo, hi) of a slice on a sequence of length n"""
    if not isinstance(sub.slice, ast.Slice) or sub.slice.step is not None:
        raise Unsupported('not a simple slice')
    idx = list(range(n))
    lo = ev(sub.slice.lower, env) if sub.slice.lower is not None else None
    hi = ev(sub.slice.upper, env) if sub.slice.upper is not None else None
    part = idx[lo:hi]
    if not part:
        # empty slice: position matters for 'suffix at the end' vs 'prefix at the start'
        lo2 = 0 if lo is None else (lo if lo >= 0 else max(n + lo, 0))
        lo2 = min(lo2, n)
        return (lo2, lo2)
    return (part[0], part[-1] + 1)


UNKNOWN = ('<unknown>',)


def run_block(stmts, env, fixed=()):
    """abstract execution of straight-line code with if/else over the evaluator above: assignments whose value is outside
    the fragment bind UNKNOWN, names in `fixed` keep their preset value, an if with an undecidable test executes both
    branches and keeps only the bindings on which they agree.  Loops, returns and raises end the block.  Returns env."""
    env = dict(env)
    for st in stmts:
        if isinstance(st, (ast.Assign, ast.AnnAssign)):
            targets = st.targets if isinstance(st, ast.Assign) else [st.target]
            if st.value is None:
                continue
            try:
                v = ev(st.value, env)
                if any(x is UNKNOWN for x in (v if isinstance(v, tuple) else (v,))):
                    v = UNKNOWN
            except (Unsupported, TypeError, KeyError, IndexError, AttributeError):
                v = UNKNOWN
            for t in targets:
                if isinstance(t, ast.Name):
                    if t.id not in fixed:
                        env[t.id] = v
                elif isinstance(t, (ast.Tuple, ast.List)):
                    for i, el in enumerate(t.elts):
                        if isinstance(el, ast.Name) and el.id not in fixed:
                            env[el.id] = v[i] if isinstance(v, tuple) and v is not UNKNOWN and i < len(v) else UNKNOWN
            continue
        if isinstance(st, ast.AugAssign):
            if isinstance(st.target, ast.Name) and st.target.id not in fixed:
                try:
                    cur = env[st.target.id]
                    inc = ev(st.value, env)
                    env[st.target.id] = cur + inc if isinstance(st.op, ast.Add) else (cur - inc if isinstance(st.op, ast.Sub) else UNKNOWN)
                except (Unsupported, TypeError, KeyError):
                    env[st.target.id] = UNKNOWN
            continue
        if isinstance(st, ast.If):
            try:
                t = ev(st.test, env)
                if t is UNKNOWN or any(x is UNKNOWN for x in (t if isinstance(t, tuple) else ())):
                    raise Unsupported('unknown test')
                env = run_block(st.body if t else st.orelse, env, fixed)
            except (Unsupported, TypeError, KeyError):
                e1 = run_block(st.body, env, fixed)
                e2 = run_block(st.orelse, env, fixed)
                env = {k: (e1[k] if k in e1 and k in e2 and e1[k] == e2[k] else UNKNOWN) for k in set(e1) | set(e2)}
            continue
        if isinstance(st, (ast.Expr, ast.Pass, ast.Assert)):
            continue
        if isinstance(st, (ast.Return, ast.Raise, ast.For, ast.While, ast.Break, ast.Continue)):
            break
    return env
