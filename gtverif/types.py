"""E1 -- shape/type inference from annotations, literals, constructors and callee return
annotations.  Types are small tuples:

  ('set',T) ('frozenset',T) ('list',T) ('dict',K,V) ('defaultdict',K,V) ('tuple',(T..)|None)
  ('str',) ('int',) ('bool',) ('none',) ('cls',qualname) ('union',(T..)) ('any',) ('callable',)
  ('iter',T)
"""
import ast
from typing import Optional

ANY = ('any',)
STR = ('str',)
INT = ('int',)
BOOL = ('bool',)
NONE = ('none',)

_GENERIC = {
    'Set': 'set', 'MutableSet': 'set', 'AbstractSet': 'set', 'set': 'set',
    'FrozenSet': 'frozenset', 'frozenset': 'frozenset',
    'List': 'list', 'list': 'list', 'Sequence': 'list', 'MutableSequence': 'list',
    'Iterable': 'iter', 'Iterator': 'iter', 'Collection': 'iter', 'Generator': 'iter',
    'Dict': 'dict', 'dict': 'dict', 'Mapping': 'dict', 'MutableMapping': 'dict',
    'DefaultDict': 'defaultdict', 'defaultdict': 'defaultdict',
    'Tuple': 'tuple', 'tuple': 'tuple',
}


def union(*ts):
    flat = []
    for t in ts:
        if t is None:
            continue
        if t[0] == 'union':
            for u in t[1]:
                if u not in flat:
                    flat.append(u)
        elif t not in flat:
            flat.append(t)
    if not flat:
        return None
    if len(flat) == 1:
        return flat[0]
    if ANY in flat:
        return ANY
    return ('union', tuple(flat))


def members(t):
    if t is None:
        return []
    if t[0] == 'union':
        return list(t[1])
    return [t]


def elem_type(t):
    """Type of the elements produced by iterating over t."""
    out = []
    for m in members(t):
        if m[0] in ('set', 'frozenset', 'list', 'iter'):
            out.append(m[1])
        elif m[0] in ('dict', 'defaultdict'):
            out.append(m[1])
        elif m[0] == 'tuple':
            if m[1]:
                out.append(union(*m[1]))
            else:
                out.append(ANY)
        elif m[0] == 'str':
            out.append(STR)
        else:
            out.append(ANY)
    return union(*out) if out else None


def is_kind(t, *kinds):
    ms = members(t)
    return bool(ms) and all(m[0] in kinds for m in ms)


def may_be_kind(t, *kinds):
    return any(m[0] in kinds for m in members(t))


class Typer:
    """Annotation parsing and per-function flow-insensitive local type inference."""

    def __init__(self, prog, nominal=False):
        self.prog = prog
        self._envs = {}
        self._alias_guard = set()
        # nominal=True keeps the NewType names of the repository (State, Symbol, Direction) as sorts: ('str', 'State')
        self.nominal = nominal

    # annotations ------------------------------------------------------------------
    def parse_annotation(self, module, func, expr):
        if expr is None:
            return None
        if isinstance(expr, ast.Constant):
            if expr.value is None:
                return NONE
            if isinstance(expr.value, str):
                try:
                    return self.parse_annotation(module, func, ast.parse(expr.value, mode='eval').body)
                except SyntaxError:
                    return ANY
            return ANY
        if isinstance(expr, ast.Name):
            n = expr.id
            if n in ('str',):
                return STR
            if n == 'int':
                return INT
            if n == 'bool':
                return BOOL
            if n in ('Any', 'object'):
                return ANY
            if n in ('Callable',):
                return ('callable',)
            if n in _GENERIC:
                k = _GENERIC[n]
                if k in ('dict', 'defaultdict'):
                    return (k, ANY, ANY)
                if k == 'tuple':
                    return ('tuple', None)
                return (k, ANY)
            r = self.prog.resolve_name(func, module, n)
            if r is None:
                return ANY
            if r.kind == 'class':
                return ('cls', r.target.qualname)
            if r.kind == 'global':
                m, name = r.target
                key = (m.name, name)
                if key in self._alias_guard:
                    return ANY
                self._alias_guard.add(key)
                try:
                    v = m.globals[name]
                    if isinstance(v, ast.Call) and isinstance(v.func, ast.Name) and v.func.id == 'NewType' and len(v.args) == 2:
                        base = self.parse_annotation(m, None, v.args[1])
                        if self.nominal and base == STR:
                            return ('str', name)
                        return base
                    return self.parse_annotation(m, None, v)
                finally:
                    self._alias_guard.discard(key)
            return ANY
        if isinstance(expr, ast.Attribute):
            r = self.prog.resolve_expr(func, module, expr)
            if r is not None and r.kind == 'class':
                return ('cls', r.target.qualname)
            if expr.attr in _GENERIC:
                return self.parse_annotation(module, func, ast.Name(id=expr.attr))
            return ANY
        if isinstance(expr, ast.Subscript):
            base = expr.value
            bname = base.id if isinstance(base, ast.Name) else (base.attr if isinstance(base, ast.Attribute) else None)
            sl = expr.slice
            args = list(sl.elts) if isinstance(sl, ast.Tuple) else [sl]
            if bname in ('Optional',):
                return union(self.parse_annotation(module, func, args[0]), NONE)
            if bname in ('Union',):
                return union(*[self.parse_annotation(module, func, a) for a in args])
            if bname in ('Callable',):
                return ('callable',)
            if bname in _GENERIC:
                k = _GENERIC[bname]
                ps = [self.parse_annotation(module, func, a) or ANY for a in args]
                if k in ('dict', 'defaultdict'):
                    return (k, ps[0], ps[1] if len(ps) > 1 else ANY)
                if k == 'tuple':
                    if len(args) == 2 and isinstance(args[1], ast.Constant) and args[1].value is Ellipsis:
                        return ('list', ps[0])
                    return ('tuple', tuple(ps))
                return (k, ps[0])
            return ANY
        if isinstance(expr, ast.BinOp) and isinstance(expr.op, ast.BitOr):
            return union(self.parse_annotation(module, func, expr.left), self.parse_annotation(module, func, expr.right))
        return ANY

    def field_type(self, cls, field, _seen=None):
        if field not in cls.fields:
            _seen = _seen or set()
            _seen.add(cls.qualname)
            for b in cls.base_names:
                r = self.prog._lookup_in_module(cls.module.name, b.split('.')[-1])
                if r is not None and r.kind == 'class' and r.target.qualname not in _seen:
                    t = self.field_type(r.target, field, _seen)
                    if t is not None:
                        return t
            return None
        ann = cls.fields.get(field)
        if ann is not None:
            init = cls.methods.get('__init__')
            return self.parse_annotation(cls.module, init, ann)
        src = cls.field_source.get(field)
        if src is not None:
            init = cls.methods.get('__init__')
            if init is not None:
                return self.env(init).type_of(src)
        return None

    def return_type(self, f):
        return self.parse_annotation(f.module, f, f.node.returns)

    def env(self, func) -> 'TypeEnv':
        k = func.qualname
        e = self._envs.get(k)
        if e is None:
            e = TypeEnv(self, func)
            self._envs[k] = e
            e.build()
        return e


class TypeEnv:
    def __init__(self, typer: Typer, func):
        self.typer = typer
        self.prog = typer.prog
        self.func = func
        self.module = func.module
        self.vars = {}
        self._building = False

    def _bind(self, target, t):
        if t is None:
            return
        if isinstance(target, ast.Name):
            old = self.vars.get(target.id)
            new = union(old, t)
            if new != old:
                self.vars[target.id] = new
                self._changed = True
        elif isinstance(target, (ast.Tuple, ast.List)):
            for i, el in enumerate(target.elts):
                if isinstance(el, ast.Starred):
                    continue
                parts = []
                for m in members(t):
                    if m[0] == 'tuple' and m[1] and i < len(m[1]):
                        parts.append(m[1][i])
                    elif m[0] in ('list', 'set', 'frozenset', 'iter'):
                        parts.append(m[1])
                    elif m[0] == 'str':
                        parts.append(STR)
                    else:
                        parts.append(ANY)
                self._bind(el, union(*parts))

    def build(self):
        f = self.func
        # parameters (own and enclosing functions', for closures)
        g = f
        chain = []
        while g is not None:
            chain.append(g)
            g = g.parent
        for g in reversed(chain):
            for p in g.pos_params + g.node.args.kwonlyargs:
                t = self.typer.parse_annotation(g.module, g, p.annotation)
                if p.arg == 'self' and g.cls is not None:
                    t = ('cls', g.cls.qualname)
                if t is None and p.arg in g.defaults:
                    t = None
                if t is not None:
                    self.vars[p.arg] = t
        # closures: variables of enclosing functions
        if f.parent is not None:
            penv = self.typer.env(f.parent) if f.parent.qualname in self.typer._envs or True else None
            if penv is not None and penv is not self and not penv._building:
                for k, v in penv.vars.items():
                    self.vars.setdefault(k, v)
        self._building = True
        nodes = [n for n in f.body_nodes(include_nested=False)]
        for _ in range(6):
            self._changed = False
            for n in nodes:
                if isinstance(n, ast.Assign):
                    t = self.type_of(n.value)
                    for tg in n.targets:
                        self._bind(tg, t)
                elif isinstance(n, ast.AnnAssign):
                    t = self.typer.parse_annotation(self.module, f, n.annotation)
                    if (t is None or t == ANY) and n.value is not None:
                        t = self.type_of(n.value)
                    self._bind(n.target, t)
                elif isinstance(n, ast.AugAssign):
                    pass
                elif isinstance(n, ast.For):
                    self._bind(n.target, elem_type(self.type_of(n.iter)))
                elif isinstance(n, ast.comprehension):
                    self._bind(n.target, elem_type(self.type_of(n.iter)))
                elif isinstance(n, ast.With):
                    for it in n.items:
                        if it.optional_vars is not None:
                            self._bind(it.optional_vars, ANY)
                elif isinstance(n, ast.NamedExpr):
                    self._bind(n.target, self.type_of(n.value))
            if not self._changed:
                break
        self._building = False

    # expression typing --------------------------------------------------------------
    def type_of(self, e) -> Optional[tuple]:
        try:
            return self._type_of(e)
        except RecursionError:
            return None

    def _type_of(self, e):
        if e is None:
            return None
        if isinstance(e, ast.Constant):
            v = e.value
            if isinstance(v, bool):
                return BOOL
            if isinstance(v, int):
                return INT
            if isinstance(v, str):
                return STR
            if v is None:
                return NONE
            return ANY
        if isinstance(e, ast.JoinedStr):
            return STR
        if isinstance(e, ast.Name):
            if e.id in self.vars:
                return self.vars[e.id]
            r = self.prog.resolve_name(self.func, self.module, e.id)
            if r is not None and r.kind == 'global':
                m, name = r.target
                return None
            return None
        if isinstance(e, ast.Attribute):
            t = self._type_of(e.value)
            out = []
            for m in members(t):
                if m[0] == 'cls':
                    c = self.prog.classes.get(m[1])
                    if c is not None:
                        ft = self.typer.field_type(c, e.attr)
                        if ft is not None:
                            out.append(ft)
            return union(*out) if out else None
        if isinstance(e, ast.Subscript):
            t = self._type_of(e.value)
            out = []
            is_slice = isinstance(e.slice, ast.Slice)
            for m in members(t):
                if m[0] in ('dict', 'defaultdict'):
                    out.append(m[2])
                elif m[0] == 'list':
                    out.append(m if is_slice else m[1])
                elif m[0] == 'str':
                    out.append(STR)
                elif m[0] == 'tuple':
                    if is_slice:
                        out.append(m)
                    elif m[1] and isinstance(e.slice, ast.Constant) and isinstance(e.slice.value, int) and -len(m[1]) <= e.slice.value < len(m[1]):
                        out.append(m[1][e.slice.value])
                    elif m[1]:
                        out.append(union(*m[1]))
                    else:
                        out.append(ANY)
                else:
                    out.append(ANY)
            return union(*out) if out else None
        if isinstance(e, (ast.Set,)):
            return ('set', union(*[self._type_of(x) for x in e.elts]) or ANY)
        if isinstance(e, ast.List):
            return ('list', union(*[self._type_of(x) for x in e.elts]) or ANY)
        if isinstance(e, ast.Tuple):
            return ('tuple', tuple(self._type_of(x) or ANY for x in e.elts))
        if isinstance(e, ast.Dict):
            return ('dict', union(*[self._type_of(x) for x in e.keys if x is not None]) or ANY,
                    union(*[self._type_of(x) for x in e.values]) or ANY)
        if isinstance(e, (ast.SetComp, ast.ListComp, ast.GeneratorExp)):
            self._bind_comp(e.generators)
            k = {'SetComp': 'set', 'ListComp': 'list', 'GeneratorExp': 'iter'}[type(e).__name__]
            return (k, self._type_of(e.elt) or ANY)
        if isinstance(e, ast.DictComp):
            self._bind_comp(e.generators)
            return ('dict', self._type_of(e.key) or ANY, self._type_of(e.value) or ANY)
        if isinstance(e, ast.IfExp):
            return union(self._type_of(e.body), self._type_of(e.orelse))
        if isinstance(e, (ast.Compare,)):
            return BOOL
        if isinstance(e, ast.BoolOp):
            return union(*[self._type_of(v) for v in e.values])
        if isinstance(e, ast.UnaryOp):
            if isinstance(e.op, ast.Not):
                return BOOL
            return self._type_of(e.operand)
        if isinstance(e, ast.BinOp):
            lt = self._type_of(e.left)
            rt = self._type_of(e.right)
            if isinstance(e.op, (ast.BitOr, ast.BitAnd, ast.Sub, ast.BitXor)) and may_be_kind(lt, 'set', 'frozenset'):
                et = union(elem_type(lt), elem_type(rt) if may_be_kind(rt, 'set', 'frozenset') else None)
                k = 'frozenset' if is_kind(lt, 'frozenset') else 'set'
                return (k, et or ANY)
            if isinstance(e.op, ast.Add):
                if may_be_kind(lt, 'list') or may_be_kind(rt, 'list'):
                    return ('list', union(elem_type(lt) if may_be_kind(lt, 'list') else None,
                                          elem_type(rt) if may_be_kind(rt, 'list') else None) or ANY)
                if may_be_kind(lt, 'str') or may_be_kind(rt, 'str'):
                    return STR
            if isinstance(e.op, ast.Mod) and may_be_kind(lt, 'str'):
                return STR
            if isinstance(e.op, ast.Mult) and (may_be_kind(lt, 'str') or may_be_kind(rt, 'str')):
                return STR
            if is_kind(lt, 'int') and is_kind(rt, 'int'):
                return INT
            return lt or rt
        if isinstance(e, ast.Lambda):
            return ('callable',)
        if isinstance(e, ast.Starred):
            return self._type_of(e.value)
        if isinstance(e, ast.Call):
            return self._call_type(e)
        return None

    def _bind_comp(self, gens):
        for g in gens:
            self._changed = getattr(self, '_changed', False)
            self._bind(g.target, elem_type(self._type_of(g.iter)))

    def _factory_type(self, arg):
        if arg is None:
            return ANY
        if isinstance(arg, ast.Name):
            return {'set': ('set', ANY), 'list': ('list', ANY), 'dict': ('dict', ANY, ANY), 'int': INT, 'str': STR}.get(arg.id, ANY)
        if isinstance(arg, ast.Lambda):
            return self._type_of(arg.body) or ANY
        return ANY

    def _call_type(self, e: ast.Call):
        fn = e.func
        args = e.args
        a0 = self._type_of(args[0]) if args and not isinstance(args[0], ast.Starred) else None
        # method calls on typed receivers
        if isinstance(fn, ast.Attribute):
            r = self.prog.resolve_expr(self.func, self.module, fn)
            if r is None or r.kind not in ('func', 'class', 'external', 'module'):
                rt = self._type_of(fn.value)
                name = fn.attr
                # user class method
                for m in members(rt):
                    if m[0] == 'cls':
                        c = self.prog.classes.get(m[1])
                        if c is not None:
                            mm = self.prog.find_method(c, name)
                            if mm is not None:
                                return self.typer.return_type(mm)
                if isinstance(fn.value, ast.Name) and fn.value.id == 'self':
                    ref = self.prog.resolve_call(self.func, self.module, e)
                    if ref is not None and ref.kind == 'func':
                        return self.typer.return_type(ref.target)
                if name == 'copy':
                    return rt
                if name in ('items',) and may_be_kind(rt, 'dict', 'defaultdict'):
                    ms = [m for m in members(rt) if m[0] in ('dict', 'defaultdict')]
                    return ('iter', union(*[('tuple', (m[1], m[2])) for m in ms]))
                if name == 'keys' and may_be_kind(rt, 'dict', 'defaultdict'):
                    return ('iter', union(*[m[1] for m in members(rt) if m[0] in ('dict', 'defaultdict')]))
                if name == 'values' and may_be_kind(rt, 'dict', 'defaultdict'):
                    return ('iter', union(*[m[2] for m in members(rt) if m[0] in ('dict', 'defaultdict')]))
                if name == 'get' and may_be_kind(rt, 'dict', 'defaultdict'):
                    return union(*[m[2] for m in members(rt) if m[0] in ('dict', 'defaultdict')])
                if name == 'pop' and may_be_kind(rt, 'set', 'list'):
                    return elem_type(rt)
                if name in ('union', 'intersection', 'difference', 'symmetric_difference') and may_be_kind(rt, 'set', 'frozenset'):
                    ets = [elem_type(rt)]
                    for a in args:
                        at = self._type_of(a.value if isinstance(a, ast.Starred) else a)
                        if isinstance(a, ast.Starred):
                            at = elem_type(at)
                        if may_be_kind(at, 'set', 'frozenset', 'list', 'iter'):
                            ets.append(elem_type(at))
                    return ('set', union(*[x for x in ets if x is not None and x != ANY]) or ANY)
                if name in ('format', 'join', 'strip', 'upper', 'lower', 'replace', 'getvalue', 'lstrip', 'rstrip'):
                    return STR
                if name in ('split', 'splitlines'):
                    return ('list', STR)
                if name in ('isdisjoint', 'issubset', 'issuperset', 'startswith', 'endswith', 'isupper', 'islower'):
                    return BOOL
                if name in ('index', 'count'):
                    return INT
                return None
        ref = self.prog.resolve_call(self.func, self.module, e)
        if ref is None:
            return None
        if ref.kind == 'class':
            return ('cls', ref.target.qualname)
        if ref.kind == 'func':
            f = ref.target
            if f.name in ('set_element',) and a0 is not None:
                return elem_type(a0)
            rt = self.typer.return_type(f)
            return rt
        if ref.kind == 'global':
            if self.typer.nominal:
                m, gname = ref.target
                v = m.globals.get(gname)
                if isinstance(v, ast.Call) and isinstance(v.func, ast.Name) and v.func.id == 'NewType' and len(v.args) == 2:
                    return self.typer.parse_annotation(m, None, ast.Name(id=gname))
            return None
        name = ref.name
        if ref.kind == 'builtin':
            if name in ('set', 'frozenset', 'list', 'sorted', 'reversed', 'tuple', 'iter'):
                k = {'sorted': 'list', 'reversed': 'iter', 'tuple': 'list', 'iter': 'iter'}.get(name, name)
                if not args:
                    return (k, ANY)
                return (k, elem_type(a0) or ANY)
            if name == 'dict':
                if a0 is not None and may_be_kind(a0, 'dict', 'defaultdict'):
                    ms = [m for m in members(a0) if m[0] in ('dict', 'defaultdict')]
                    return ('dict', union(*[m[1] for m in ms]), union(*[m[2] for m in ms]))
                return ('dict', ANY, ANY)
            if name in ('len', 'int', 'hash', 'ord', 'sum'):
                return INT
            if name in ('str', 'repr', 'chr', 'format'):
                return STR
            if name in ('any', 'all', 'isinstance', 'bool', 'hasattr', 'callable'):
                return BOOL
            if name == 'next':
                return elem_type(a0)
            if name in ('min', 'max'):
                if len(args) == 1:
                    return elem_type(a0)
                return union(*[self._type_of(a) for a in args])
            if name == 'range':
                return ('iter', INT)
            if name == 'enumerate':
                return ('iter', ('tuple', (INT, elem_type(a0) or ANY)))
            if name == 'zip':
                return ('iter', ('tuple', tuple(elem_type(self._type_of(a)) or ANY for a in args)))
            if name == 'map':
                ft = None
                if args:
                    rr = self.prog.resolve_expr(self.func, self.module, args[0]) if isinstance(args[0], (ast.Name, ast.Attribute)) else None
                    if rr is not None and rr.kind == 'func':
                        ft = self.typer.return_type(rr.target)
                    elif rr is not None and rr.kind == 'class':
                        ft = ('cls', rr.target.qualname)
                    elif rr is not None and rr.kind == 'builtin' and rr.name == 'str':
                        ft = STR
                return ('iter', ft or ANY)
            if name == 'filter':
                return ('iter', elem_type(self._type_of(args[1])) if len(args) > 1 else ANY)
            return None
        if ref.kind == 'external':
            full = ref.name
            if full in ('copy.deepcopy', 'copy.copy'):
                return a0
            if full == 'collections.defaultdict':
                return ('defaultdict', ANY, self._factory_type(args[0] if args else None))
            if full in ('itertools.product',):
                rep = [k for k in e.keywords if k.arg == 'repeat']
                if rep:
                    return ('iter', ('list', elem_type(a0) or ANY))
                return ('iter', ('tuple', tuple(elem_type(self._type_of(a)) or ANY for a in args)))
            if full in ('itertools.combinations', 'itertools.combinations_with_replacement', 'itertools.permutations'):
                return ('iter', ('list', elem_type(a0) or ANY))
            if full == 'itertools.chain.from_iterable':
                return ('iter', elem_type(elem_type(a0)) or ANY)
            if full in ('re.fullmatch', 're.match', 're.search'):
                return ANY
            if full in ('re.sub',):
                return STR
            if full in ('re.split', 're.findall'):
                return ('list', STR)
            if full == 'io.StringIO':
                return ANY
            return None
        return None
