"""E2 -- statement-level control-flow graph for the statement kinds the repository uses,
dominators, edge-dominating guards and simple path queries.

Nodes are integers; ``cfg.node[i]`` is a CFGNode.  Compound statements contribute a
*test* node (``if``/``while``/``assert``: edges labelled True/False; ``for``: edges
labelled 'iter'/'done').  A statement kind the builder does not know raises
AnalysisError (never a guess).
"""
import ast
from typing import Dict, List, Optional, Set, Tuple

from .model import AnalysisError, norm


class CFGNode:
    __slots__ = ('id', 'kind', 'stmt', 'expr', 'loop')

    def __init__(self, id, kind, stmt=None, expr=None):
        self.id = id
        self.kind = kind      # entry | exit | raise | stmt | test | for | assert | with | except | def
        self.stmt = stmt
        self.expr = expr      # test expression for test/assert nodes, iterable for 'for'
        self.loop = None

    def __repr__(self):
        return '<{} {} {}>'.format(self.id, self.kind, norm(self.stmt) if self.stmt is not None else '')


class CFG:
    def __init__(self, fnode):
        self.fnode = fnode
        self.node: List[CFGNode] = []
        self.succ: Dict[int, List[Tuple[int, object]]] = {}
        self.pred: Dict[int, List[Tuple[int, object]]] = {}
        self.entry = self._new('entry')
        self.exit = self._new('exit')          # normal return
        self.raise_exit = self._new('raise')   # uncaught exception
        self.of_stmt: Dict[int, int] = {}      # id(ast stmt) -> node id
        self.parent_loop: Dict[int, Optional[ast.AST]] = {}
        self._loop_stack = []
        self._try_stack = []
        last = self._block(fnode.body, [(self.entry, None)])
        for (n, lab) in last:
            self._edge(n, self.exit, lab)
        self._dom = None
        self._pdom = None

    # construction ---------------------------------------------------------------
    def _new(self, kind, stmt=None, expr=None):
        n = CFGNode(len(self.node), kind, stmt, expr)
        self.node.append(n)
        self.succ[n.id] = []
        self.pred[n.id] = []
        if stmt is not None and kind != 'except':
            self.of_stmt.setdefault(id(stmt), n.id)
        return n.id

    def _edge(self, a, b, label=None):
        if (b, label) not in self.succ[a]:
            self.succ[a].append((b, label))
            self.pred[b].append((a, label))

    def _connect(self, frontier, b):
        for (a, lab) in frontier:
            self._edge(a, b, lab)

    def _raise_targets(self):
        """Where an exception raised here goes: innermost enclosing handlers, else raise exit."""
        if self._try_stack:
            return self._try_stack[-1]
        return [self.raise_exit]

    def _may_raise_edges(self, n):
        # every statement inside a try body may jump to the handlers
        if self._try_stack:
            for h in self._try_stack[-1]:
                self._edge(n, h, 'exc')

    def _block(self, stmts, frontier):
        for st in stmts:
            frontier = self._stmt(st, frontier)
        return frontier

    def _stmt(self, st, frontier):
        if isinstance(st, (ast.Expr, ast.Assign, ast.AugAssign, ast.AnnAssign, ast.Pass, ast.Import, ast.ImportFrom,
                           ast.Delete, ast.Global, ast.Nonlocal)):
            n = self._new('stmt', st)
            self._connect(frontier, n)
            self._may_raise_edges(n)
            return [(n, None)]
        if isinstance(st, (ast.FunctionDef, ast.ClassDef)):
            n = self._new('def', st)
            self._connect(frontier, n)
            return [(n, None)]
        if isinstance(st, ast.Return):
            n = self._new('stmt', st)
            self._connect(frontier, n)
            self._may_raise_edges(n)
            self._edge(n, self.exit)
            return []
        if isinstance(st, ast.Raise):
            n = self._new('stmt', st)
            self._connect(frontier, n)
            for t in self._raise_targets():
                self._edge(n, t, 'exc')
            return []
        if isinstance(st, ast.Assert):
            n = self._new('assert', st, st.test)
            self._connect(frontier, n)
            for t in self._raise_targets():
                self._edge(n, t, False)
            return [(n, True)]
        if isinstance(st, ast.If):
            n = self._new('test', st, st.test)
            self._connect(frontier, n)
            self._may_raise_edges(n)
            out = self._block(st.body, [(n, True)])
            out += self._block(st.orelse, [(n, False)]) if st.orelse else [(n, False)]
            return out
        if isinstance(st, ast.While):
            n = self._new('test', st, st.test)
            self._connect(frontier, n)
            self._may_raise_edges(n)
            brk = []
            self._loop_stack.append((n, brk))
            body_out = self._block(st.body, [(n, True)])
            self._loop_stack.pop()
            self._connect(body_out, n)
            always = isinstance(st.test, ast.Constant) and bool(st.test.value) is True
            out = [] if always else [(n, False)]
            if st.orelse:
                out = self._block(st.orelse, out)
            return out + brk
        if isinstance(st, ast.For):
            n = self._new('for', st, st.iter)
            self._connect(frontier, n)
            self._may_raise_edges(n)
            brk = []
            self._loop_stack.append((n, brk))
            body_out = self._block(st.body, [(n, 'iter')])
            self._loop_stack.pop()
            self._connect(body_out, n)
            out = [(n, 'done')]
            if st.orelse:
                out = self._block(st.orelse, out)
            return out + brk
        if isinstance(st, ast.Break):
            n = self._new('stmt', st)
            self._connect(frontier, n)
            if not self._loop_stack:
                raise AnalysisError('break outside loop')
            self._loop_stack[-1][1].append((n, None))
            return []
        if isinstance(st, ast.Continue):
            n = self._new('stmt', st)
            self._connect(frontier, n)
            if not self._loop_stack:
                raise AnalysisError('continue outside loop')
            self._edge(n, self._loop_stack[-1][0])
            return []
        if isinstance(st, ast.With):
            n = self._new('with', st)
            self._connect(frontier, n)
            self._may_raise_edges(n)
            return self._block(st.body, [(n, None)])
        if isinstance(st, ast.Try):
            handlers = []
            for h in st.handlers:
                hn = self._new('except', h)
                self.of_stmt[id(h)] = hn
                handlers.append(hn)
            t = self._new('stmt', st)   # try entry marker
            self._connect(frontier, t)
            if st.finalbody:
                raise AnalysisError('try/finally is outside the CFG fragment')
            self._try_stack.append(handlers if handlers else self._raise_targets())
            body_out = self._block(st.body, [(t, None)])
            self._try_stack.pop()
            if st.orelse:
                body_out = self._block(st.orelse, body_out)
            out = list(body_out)
            for h, hn in zip(st.handlers, handlers):
                out += self._block(h.body, [(hn, None)])
            return out
        raise AnalysisError('statement kind {} is outside the CFG fragment'.format(type(st).__name__))

    # queries --------------------------------------------------------------------
    def nodes(self):
        return range(len(self.node))

    def n_of(self, stmt) -> int:
        try:
            return self.of_stmt[id(stmt)]
        except KeyError:
            raise AnalysisError('statement not in CFG: {}'.format(norm(stmt)))

    def reachable(self, start, removed_edge=None, avoid: Set[int] = frozenset()) -> Set[int]:
        seen = set()
        stack = [start]
        while stack:
            a = stack.pop()
            if a in seen or a in avoid:
                continue
            seen.add(a)
            for (b, lab) in self.succ[a]:
                if removed_edge is not None and (a, b, lab) == removed_edge:
                    continue
                stack.append(b)
        return seen

    def coreachable(self, target, removed_edge=None, avoid: Set[int] = frozenset()) -> Set[int]:
        seen = set()
        stack = [target]
        while stack:
            b = stack.pop()
            if b in seen or b in avoid:
                continue
            seen.add(b)
            for (a, lab) in self.pred[b]:
                if removed_edge is not None and (a, b, lab) == removed_edge:
                    continue
                stack.append(a)
        return seen

    def dominators(self) -> Dict[int, Set[int]]:
        if self._dom is None:
            alln = set(self.reachable(self.entry))
            dom = {n: set(alln) for n in alln}
            dom[self.entry] = {self.entry}
            changed = True
            while changed:
                changed = False
                for n in alln:
                    if n == self.entry:
                        continue
                    ps = [p for (p, _) in self.pred[n] if p in alln]
                    new = set.intersection(*[dom[p] for p in ps]) if ps else set()
                    new = new | {n}
                    if new != dom[n]:
                        dom[n] = new
                        changed = True
            self._dom = dom
        return self._dom

    def dominates(self, a, b) -> bool:
        d = self.dominators()
        return b in d and a in d[b]

    def must_pass(self, via: Set[int], target: int, start=None) -> bool:
        """Every path from start (entry) to target passes through a node of ``via``."""
        start = self.entry if start is None else start
        if start in via:
            return True
        return target not in self.reachable(start, avoid=set(via))

    def guards(self, n: int):
        """Edge-dominating guards of node n: list of (test node id, label, between) where every
        path from entry to n traverses the edge (test --label--> .) and ``between`` is the set of
        nodes that can lie on a path from that edge to n without traversing the edge again."""
        out = []
        dom = self.dominators()
        if n not in dom:
            return out
        for t in dom[n]:
            tn = self.node[t]
            if tn.kind not in ('test', 'assert', 'for'):
                continue
            if t == n:
                continue
            for (s, lab) in self.succ[t]:
                if lab == 'exc':
                    continue
                e = (t, s, lab)
                if n in self.reachable(self.entry, removed_edge=e):
                    continue
                between = self.reachable(s, removed_edge=e) & self.coreachable(n, removed_edge=e)
                out.append((t, lab, between - {n}))
        return out

    def exits(self):
        return [self.exit, self.raise_exit]

    def stmt_nodes(self):
        return [n for n in self.node if n.stmt is not None]


_cache: Dict[int, CFG] = {}


def cfg_of(fnode) -> CFG:
    k = id(fnode)
    c = _cache.get(k)
    if c is None or c.fnode is not fnode:
        c = CFG(fnode)
        _cache[k] = c
    return c


def clear_cache():
    _cache.clear()
