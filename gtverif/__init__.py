"""gtverif -- repository-specific static analysis for wiegerw/gambatools.

Parses /repo's current working tree on every run (stdlib ``ast`` only); never
imports or executes gambatools.  See /verif/DESIGN.md.
"""
