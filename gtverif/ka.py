"""Regular-expression terms and a decision procedure for language equivalence (Brzozowski derivatives with
ACI-normalised sums; the state space is finite).  Used on rewrite rules extracted from the source, with the
children of a rule as fresh letters (regular identities are closed under substitution)."""

ZERO = ('0',)
ONE = ('1',)


def sym(a):
    return ('s', a)


def star(r):
    if r in (ZERO, ONE):
        return ONE
    if r[0] == '*':
        return r
    return ('*', r)


def cat(r, s):
    if r == ZERO or s == ZERO:
        return ZERO
    if r == ONE:
        return s
    if s == ONE:
        return r
    return ('.', r, s)


def _summands(r):
    if r[0] == '+':
        return _summands(r[1]) | _summands(r[2])
    if r == ZERO:
        return frozenset()
    return frozenset([r])


def plus(r, s):
    parts = sorted(_summands(r) | _summands(s), key=repr)
    if not parts:
        return ZERO
    out = parts[0]
    for p in parts[1:]:
        out = ('+', out, p)
    return out


def raw(r):
    """structure-preserving constructors (no simplification), for sizes"""
    return r


def nullable(r):
    k = r[0]
    if k == '0' or k == 's':
        return False
    if k == '1' or k == '*':
        return True
    if k == '+':
        return nullable(r[1]) or nullable(r[2])
    return nullable(r[1]) and nullable(r[2])


def norm(r):
    k = r[0]
    if k in ('0', '1', 's'):
        return r
    if k == '*':
        return star(norm(r[1]))
    if k == '+':
        return plus(norm(r[1]), norm(r[2]))
    return cat(norm(r[1]), norm(r[2]))


def deriv(r, a):
    k = r[0]
    if k in ('0', '1'):
        return ZERO
    if k == 's':
        return ONE if r[1] == a else ZERO
    if k == '+':
        return plus(deriv(r[1], a), deriv(r[2], a))
    if k == '.':
        d = cat(deriv(r[1], a), r[2])
        if nullable(r[1]):
            d = plus(d, deriv(r[2], a))
        return d
    return cat(deriv(r[1], a), r)


def letters(r, acc=None):
    acc = set() if acc is None else acc
    if r[0] == 's':
        acc.add(r[1])
    for x in r[1:]:
        if isinstance(x, tuple):
            letters(x, acc)
    return acc


def equivalent(r, s, limit=20000):
    """(True, None) or (False, distinguishing word)"""
    sigma = sorted(letters(r) | letters(s))
    start = (norm(r), norm(s))
    seen = {start: ''}
    work = [start]
    while work:
        x, y = work.pop()
        w = seen[(x, y)]
        if nullable(x) != nullable(y):
            return False, w
        if len(seen) > limit:
            raise RuntimeError('equivalence search exceeded its limit')
        for a in sigma:
            nx, ny = norm(deriv(x, a)), norm(deriv(y, a))
            if (nx, ny) not in seen:
                seen[(nx, ny)] = w + a
                work.append((nx, ny))
    return True, None


def size(r):
    """number of operator occurrences, as regexp_size counts them (star 1, binary 2)"""
    k = r[0]
    if k in ('0', '1', 's'):
        return 0
    if k == '*':
        return size(r[1]) + 1
    return size(r[1]) + size(r[2]) + 2


def show(r):
    k = r[0]
    if k in ('0', '1'):
        return k
    if k == 's':
        return r[1]
    if k == '*':
        return '({})*'.format(show(r[1])) if r[1][0] in '+.' else show(r[1]) + '*'
    if k == '+':
        return '{}+{}'.format(show(r[1]), show(r[2]))
    l = '({})'.format(show(r[1])) if r[1][0] == '+' else show(r[1])
    rr = '({})'.format(show(r[2])) if r[2][0] == '+' else show(r[2])
    return l + '.' + rr
