"""Regular languages of writer formats and reader regular expressions over a small alphabet of representative
characters; inclusion is decided by subset/product construction (in the analyser, on extracted patterns)."""
import re
try:
    import re._parser as sre_parse
    import re._constants as sre_c
except ImportError:          # pragma: no cover  (python < 3.11)
    import sre_parse
    import sre_constants as sre_c

# one representative per cell of the partition induced by the classes the repository uses
BASE_ALPHABET = ['a', 'Z', '0', '_', 'ε', '□', ',', '(', ')', '{', '}', ' ', '#', '.', '+', '*', '|', '$', '∅', '-', '>', '%', "'", '@', '!']


ALPHABET = list(BASE_ALPHABET)


def _literals(items, acc):
    for op, av in items:
        if op in (sre_c.LITERAL, sre_c.NOT_LITERAL):
            acc.add(chr(av))
        elif op is sre_c.IN:
            for o2, a2 in av:
                if o2 is sre_c.LITERAL:
                    acc.add(chr(a2))
                elif o2 is sre_c.RANGE:
                    acc.add(chr(a2[0]))
                    acc.add(chr(a2[1]))
        elif op in (sre_c.MAX_REPEAT, sre_c.MIN_REPEAT):
            _literals(av[2], acc)
        elif op is sre_c.SUBPATTERN:
            _literals(av[-1], acc)
        elif op is sre_c.BRANCH:
            for alt in av[1]:
                _literals(alt, acc)


def set_alphabet(*patterns):
    global ALPHABET
    acc = set(BASE_ALPHABET)
    for p in patterns:
        _literals(list(sre_parse.parse(p)), acc)
    ALPHABET = sorted(acc)


class NFA:
    def __init__(self):
        self.n = 0
        self.eps = {}
        self.tr = {}

    def new(self):
        self.n += 1
        return self.n - 1

    def add(self, a, ch, b):
        self.tr.setdefault((a, ch), set()).add(b)

    def add_eps(self, a, b):
        self.eps.setdefault(a, set()).add(b)

    def closure(self, S):
        out = set(S)
        st = list(S)
        while st:
            x = st.pop()
            for y in self.eps.get(x, ()):
                if y not in out:
                    out.add(y)
                    st.append(y)
        return frozenset(out)


def _chars_of_in(items):
    neg = False
    chars = set()
    for op, av in items:
        if op is sre_c.NEGATE:
            neg = True
        elif op is sre_c.LITERAL:
            chars |= {c for c in ALPHABET if ord(c) == av}
            if chr(av) not in ALPHABET:
                chars.add(chr(av))
        elif op is sre_c.RANGE:
            lo, hi = av
            chars |= {c for c in ALPHABET if lo <= ord(c) <= hi}
        elif op is sre_c.CATEGORY:
            chars |= _category(av)
        else:
            raise ValueError('unsupported set item {}'.format(op))
    if neg:
        return set(ALPHABET) - chars
    return chars


def _category(av):
    name = str(av)
    def m(p):
        return {c for c in ALPHABET if re.fullmatch(p, c)}
    if name.endswith('CATEGORY_WORD'):
        return m(r'\w')
    if name.endswith('CATEGORY_NOT_WORD'):
        return m(r'\W')
    if name.endswith('CATEGORY_DIGIT'):
        return m(r'\d')
    if name.endswith('CATEGORY_NOT_DIGIT'):
        return m(r'\D')
    if name.endswith('CATEGORY_SPACE'):
        return m(r'\s')
    if name.endswith('CATEGORY_NOT_SPACE'):
        return m(r'\S')
    raise ValueError('unsupported category {}'.format(name))


def _build(nfa, items, start):
    cur = start
    for op, av in items:
        if op is sre_c.LITERAL:
            nxt = nfa.new()
            nfa.add(cur, chr(av), nxt)
            cur = nxt
        elif op is sre_c.NOT_LITERAL:
            nxt = nfa.new()
            for c in ALPHABET:
                if c != chr(av):
                    nfa.add(cur, c, nxt)
            cur = nxt
        elif op is sre_c.ANY:
            nxt = nfa.new()
            for c in ALPHABET:
                nfa.add(cur, c, nxt)
            cur = nxt
        elif op is sre_c.IN:
            nxt = nfa.new()
            for c in _chars_of_in(av):
                nfa.add(cur, c, nxt)
            cur = nxt
        elif op is sre_c.CATEGORY:
            nxt = nfa.new()
            for c in _category(av):
                nfa.add(cur, c, nxt)
            cur = nxt
        elif op in (sre_c.MAX_REPEAT, sre_c.MIN_REPEAT):
            lo, hi, sub = av
            for _ in range(lo):
                cur = _build(nfa, sub, cur)
            if hi is sre_c.MAXREPEAT:
                loop = nfa.new()
                nfa.add_eps(cur, loop)
                end = _build(nfa, sub, loop)
                nfa.add_eps(end, loop)
                cur = loop
            else:
                ends = [cur]
                for _ in range(hi - lo):
                    cur = _build(nfa, sub, cur)
                    ends.append(cur)
                fin = nfa.new()
                for e in ends:
                    nfa.add_eps(e, fin)
                cur = fin
        elif op is sre_c.SUBPATTERN:
            cur = _build(nfa, av[-1], cur)
        elif op is sre_c.BRANCH:
            fin = nfa.new()
            for alt in av[1]:
                e = _build(nfa, alt, cur)
                nfa.add_eps(e, fin)
            cur = fin
        elif op is sre_c.AT:
            continue
        else:
            raise ValueError('unsupported regex construct {}'.format(op))
    return cur


def compile_regex(pattern):
    """(nfa, start, accepting) for full-match semantics"""
    nfa = NFA()
    s = nfa.new()
    e = _build(nfa, list(sre_parse.parse(pattern)), s)
    return nfa, s, {e}


def included(pat_a, pat_b):
    """L(pat_a) subseteq L(pat_b) over ALPHABET ; returns (True, None) or (False, witness)"""
    set_alphabet(pat_a, pat_b)
    A, sa, fa = compile_regex(pat_a)
    B, sb, fb = compile_regex(pat_b)
    start = (A.closure({sa}), B.closure({sb}))
    seen = {start: ''}
    work = [start]
    while work:
        X, Y = work.pop()
        w = seen[(X, Y)]
        if X & fa and not (Y & fb):
            return False, w
        for c in ALPHABET:
            nx = set()
            for x in X:
                nx |= A.tr.get((x, c), set())
            if not nx:
                continue
            ny = set()
            for y in Y:
                ny |= B.tr.get((y, c), set())
            st = (A.closure(nx), B.closure(ny))
            if st not in seen:
                seen[st] = w + c
                work.append(st)
    return True, None


def format_to_regex(fmt, component=r'\w+'):
    """'({},{})' -> r'\\(\\w+,\\w+\\)'"""
    out = ''
    i = 0
    while i < len(fmt):
        if fmt.startswith('{{', i):
            out += re.escape('{')
            i += 2
        elif fmt.startswith('}}', i):
            out += re.escape('}')
            i += 2
        elif fmt.startswith('{}', i):
            out += '(?:' + component + ')'
            i += 2
        else:
            out += re.escape(fmt[i])
            i += 1
    return out
