"""Verdicts, instances, known findings, evidence and replay files."""
import json
import os
import time
from typing import List, Optional

from .model import AnalysisError, norm

HOLDS, VIOLATES, UNDECIDED = 'HOLDS', 'VIOLATES', 'UNDECIDED'
VERIF_DIR = os.path.dirname(os.path.dirname(os.path.abspath(__file__)))
KNOWN_FINDINGS = os.path.join(VERIF_DIR, 'known_findings.json')
FLOORS = os.path.join(os.path.dirname(os.path.abspath(__file__)), 'floors.json')


class Instance:
    __slots__ = ('rule', 'where', 'construct', 'verdict', 'reason', 'nontrivial', 'line', 'path')

    def __init__(self, rule, where, construct, verdict, reason, nontrivial=True, line=None, path=None):
        self.rule = rule
        self.where = where
        self.construct = construct
        self.verdict = verdict
        self.reason = reason
        self.nontrivial = nontrivial
        self.line = line
        self.path = path

    def key(self):
        return (self.rule, self.where, self.construct)

    def as_dict(self):
        d = {'rule': self.rule, 'where': self.where, 'construct': self.construct, 'verdict': self.verdict,
             'reason': self.reason}
        if self.line:
            d['line'] = self.line
        if self.path:
            d['file'] = self.path
        return d


class Report:
    def __init__(self, prop_id):
        self.prop = prop_id
        self.instances: List[Instance] = []
        self.notes: List[str] = []
        self.functions = set()
        self.clauses_decided: List[str] = []
        self.not_decided: List[str] = []
        self.extra = {}

    def add(self, rule, func, node, verdict, reason, nontrivial=True):
        """func: FuncInfo | str ; node: ast node | str"""
        where = func if isinstance(func, str) else func.short
        path = None if isinstance(func, str) else func.module.path
        if not isinstance(func, str):
            self.functions.add(func.short)
        construct = node if isinstance(node, str) else norm(node)
        line = None if isinstance(node, str) else getattr(node, 'lineno', None)
        inst = Instance(rule, where, construct, verdict, reason, nontrivial, line, path)
        self.instances.append(inst)
        return inst

    def holds(self, rule, func, node, reason, nontrivial=True):
        return self.add(rule, func, node, HOLDS, reason, nontrivial)

    def violates(self, rule, func, node, reason):
        return self.add(rule, func, node, VIOLATES, reason, True)

    def undecided(self, rule, func, node, reason):
        return self.add(rule, func, node, UNDECIDED, reason, True)

    def note(self, text):
        self.notes.append(text)

    def analysed(self, *funcs):
        for f in funcs:
            self.functions.add(f if isinstance(f, str) else f.short)

    def count(self, rule_prefix=None, verdicts=(HOLDS, VIOLATES)):
        return sum(1 for i in self.instances if i.verdict in verdicts and (rule_prefix is None or i.rule.startswith(rule_prefix)))

    def violations(self):
        return [i for i in self.instances if i.verdict == VIOLATES]


def load_known_findings():
    if not os.path.exists(KNOWN_FINDINGS):
        return []
    with open(KNOWN_FINDINGS, 'r', encoding='utf8') as f:
        data = json.load(f)
    return data.get('findings', [])


def match_known(inst: Instance, prop, findings):
    for k in findings:
        if k.get('status') != 'known':
            continue
        if k.get('property') == prop and k.get('rule') == inst.rule and k.get('where') == inst.where and k.get('construct') == inst.construct:
            return k
    return None


def load_floors():
    if not os.path.exists(FLOORS):
        return {}
    with open(FLOORS, 'r', encoding='utf8') as f:
        return json.load(f)


# Precedence of an exact finite-model verdict over a structural rule that looks at the same clause through the FORM of the code.
# (structural rule prefix, function names the instance must lie in or None, model rules that must ALL hold with >= n HOLDS and no
# VIOLATES / UNDECIDED).  When the listed models hold, a VIOLATES of the structural rule on that code is the rule having left its
# fragment (round w: checks inlined into build(), moved to a helper, declarations printed through f-strings): it is recorded as
# UNDECIDED with both reasons, and the instance floor of the rule is waived.  The models contain a fault for every check of the
# builders, a declaration of every kind and the operand snapshot, so a real violation of the clause is still reported -- by the model.
PRECEDENCE = [
    ('R-BUILD.checks', None, [('R-MODEL.M36', 4), ('R-MODEL.M35', 4)]),
    ('R-BUILD.guard', None, [('R-MODEL.M36', 4), ('R-MODEL.M35', 4)]),
    ('R-BUILD.empty', None, [('R-MODEL.M36', 4), ('R-MODEL.M35', 4)]),
    ('R-BUILD.inv', None, [('R-MODEL.M40', 4)]),
    ('R-IO.a', None, [('R-MODEL.M35', 4)]),
    ('R-EFFECT.a', ('cfg_print_simple',), [('R-MODEL.M39', 1)]),
    ('R-WORK.W', ('dfa_reachable_states',), [('R-MODEL.M12', 1), ('R-MODEL.M21', 1)]),
    ('R-SYM.or', ('dfa_isomorphic1', 'dfa_isomorphic'), [('R-MODEL.M14', 2)]),
    ('R-CLOSED.', ('pda_accepts_word',), [('R-MODEL.M25', 1)]),
    ('R-CLOSED.', ('nfa_accepts_word', '_nfa_cache'), [('R-MODEL.M19', 1)]),
    ('R-CLOSED.', ('nfa_to_dfa',), [('R-MODEL.M20', 1)]),
    ('R-BOUND.regexp', ('regexp_words_up_to_n',), [('R-MODEL.M24', 1)]),
    ('R-DISPATCH.a', ('generate',), [('R-MODEL.M26', 1)]),
    ('R-DISPATCH.b', ('check_automaton_accepts_rejects',), [('R-FEEDBACK.K12', 1), ('R-FEEDBACK.K13', 8)]),
]


def _models_hold(rep, models):
    for rule, n in models:
        mine = [i for i in rep.instances if i.rule == rule]
        if sum(1 for i in mine if i.verdict == HOLDS) < n or any(i.verdict != HOLDS for i in mine):
            return False
    return True


# structural rules whose VIOLATES is downgraded (round w showed a false VIOLATES of each on a correct refactoring); for the other
# entries of PRECEDENCE only the instance floor is waived -- the self-test has mutants of R-SYM.or that M14 does not see
DOWNGRADE = ('R-BUILD.checks', 'R-BUILD.guard', 'R-BUILD.inv', 'R-IO.a', 'R-EFFECT.a', 'R-DISPATCH.b')


MODEL_RUNNERS = {'R-MODEL.M40': 'check_class_invariants', 'R-MODEL.M35': 'check_text_roundtrip', 'R-MODEL.M36': 'check_descriptions', 'R-MODEL.M39': 'check_simple_cfg_roundtrip'}


def model_precedence(rep, ctx=None):
    for prefix, funcs, models in PRECEDENCE:
        if prefix not in DOWNGRADE:
            continue
        hit = [i for i in rep.instances if i.verdict == VIOLATES and i.rule.startswith(prefix)]
        if hit and ctx is not None:
            # the models that decide the clause are run for this property too when a structural rule objects
            for rule, _ in models:
                if rule in MODEL_RUNNERS and not any(i.rule == rule for i in rep.instances):
                    from .rules import small_models3
                    getattr(small_models3, MODEL_RUNNERS[rule])(ctx, rep)
        hit = [i for i in rep.instances if i.verdict == VIOLATES and i.rule.startswith(prefix) and (funcs is None or any(i.where.endswith(':' + fn0) or ('.' + fn0) in i.where or (':' + fn0 + '.') in i.where for fn0 in funcs))]
        if hit and _models_hold(rep, models):
            for i in hit:
                i.verdict = UNDECIDED
                i.reason = 'the structural rule objects ({}); the finite models {} decide the same clause on their models and hold, so the code has left the form this rule understands'.format(
                    i.reason, ', '.join(r for r, _ in models))


def check_floors(rep: Report):
    floors = load_floors().get(rep.prop, {})
    for rule, floor in floors.items():
        n = rep.count(rule)
        if n < floor:
            if any(rule.startswith(prefix) and _models_hold(rep, models) for prefix, _, models in PRECEDENCE):
                rep.note('instance floor of {} waived ({} decided, floor {}): the finite models that decide the same clause hold'.format(rule, n, floor))
                continue
            raise AnalysisError('non-vacuity: rule {} decided {} instances for {}, floor is {}'.format(rule, n, rep.prop, floor))


def write_evidence(rep: Report, tier, seed, wall, unlisted, known, selftest=None, status='ok'):
    ev_dir = os.environ.get('GTVERIF_EVIDENCE_DIR') or os.path.join(VERIF_DIR, 'evidence')
    os.makedirs(ev_dir, exist_ok=True)
    decided = [i for i in rep.instances if i.verdict in (HOLDS, VIOLATES)]
    nontrivial_keys = {i.key() for i in decided if i.nontrivial}
    samples = []
    seen_rules = set()
    # one sample per rule first, then fill up
    for i in rep.instances:
        if i.rule not in seen_rules:
            seen_rules.add(i.rule)
            samples.append(i.as_dict())
    for i in rep.instances:
        if len(samples) >= 25:
            break
        if i.verdict != HOLDS:
            samples.append(i.as_dict())
    rules = {}
    for i in rep.instances:
        r = rules.setdefault(i.rule, {HOLDS: 0, VIOLATES: 0, UNDECIDED: 0})
        r[i.verdict] += 1
    coverage = {
        'explanation': 'Static analysis of /repo source (parse only, never executed). Decided clauses: '
                       + '; '.join(rep.clauses_decided) + '. NOT decided: ' + '; '.join(rep.not_decided) + '.',
        'obligations': len(rep.instances),
        'discharged': sum(1 for i in rep.instances if i.verdict == HOLDS),
        'undecided': sum(1 for i in rep.instances if i.verdict == UNDECIDED),
        'violating': sum(1 for i in rep.instances if i.verdict == VIOLATES),
        'evaluations': max(1, len(rep.instances)),
        'distinct_nontrivial': len(nontrivial_keys),
        'rule': 'an instance is one (rule, function, construct) obligation enumerated from the current source; '
                'non-trivial = its verdict needed a guard, data-flow, alias or model comparison (not a mere presence test)',
        'samples': samples,
        'rules': rules,
        'functions_analysed': sorted(rep.functions),
        'notes': rep.notes,
        'known_findings_matched': [k.as_dict() for k in known],
        'unlisted_violations': [k.as_dict() for k in unlisted],
        'checker_cmd': '/venv/bin/python -m gtverif check {} --tier {}'.format(rep.prop, tier),
        'trusted_base': ['CPython ast / re._parser', 'gtverif engine (model, types, cfg, effects)',
                         'rule tables in gtverif/rules written from properties.jsonl and doc/main.tex'],
        'status': status,
    }
    coverage.update(rep.extra)
    if selftest is not None:
        coverage['selftest'] = selftest
    ev = {
        'property_id': rep.prop,
        'tier': tier,
        'seed': int(seed),
        'level': 'other',
        'coverage': coverage,
        'assumptions': [
            'source is analysed, not executed: only the structural clauses listed under "Decided clauses" are decided',
            'assert statements are enabled (python is not run with -O)',
            'symbols are single characters and component state names match \\w+ where format inclusion is decided',
            'generated ANTLR parsers correspond to the .g4 files (name tables are cross-checked)',
        ],
        'wall_s': round(wall, 3),
        'violations': len(unlisted),
    }
    path = os.path.join(ev_dir, rep.prop + '.json')
    with open(path, 'w', encoding='utf8') as f:
        json.dump(ev, f, indent=1, ensure_ascii=False)
    return path


def write_replay(rep: Report, inst: Instance, k):
    d = os.path.join(os.environ.get('GTVERIF_EVIDENCE_DIR') or os.path.join(VERIF_DIR, 'evidence'), 'replay')
    os.makedirs(d, exist_ok=True)
    path = os.path.join(d, '{}-{}.json'.format(rep.prop, k))
    with open(path, 'w', encoding='utf8') as f:
        json.dump({'property': rep.prop, 'instance': inst.as_dict(),
                   'how_to_read': 'file/where name the function, construct is the normalised statement, reason states the rule condition that fails'},
                  f, indent=1, ensure_ascii=False)
    return path
