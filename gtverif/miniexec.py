"""The analyser's own evaluator for FINITE MODELS of small repository functions.

Several rules decide a small function exactly by a case analysis: the function only compares its inputs for equality,
tests membership and indexes sequences, so its behaviour is determined by finitely many orderings of finitely many
abstract inputs (three distinct symbols, a stack of at most two of them, a head position at the left end / inside /
at the right end of a short tape ...).  The rule enumerates those cases and this module evaluates the SYNTAX TREE of the
function on each of them.  Nothing of the repository is imported or executed: the evaluator works on the `ast` of the
analysed working tree (including in-memory overrides), understands the statement and expression forms below and raises
Unsupported for anything else (the rule then answers UNDECIDED).  Calls of other repository functions are evaluated the
same way or replaced by a stub that the rule supplies."""
import ast

from .abseval import Unsupported

CASTS = ('State', 'Symbol', 'Direction', 'Variable', 'Terminal', 'nfaSymbol', 'dfaSymbol')
SAFE_METHODS = {
    list: ('append', 'extend', 'pop', 'copy', 'index', 'count', 'insert', 'remove', 'reverse', 'sort', 'clear'),
    dict: ('get', 'items', 'keys', 'values', 'copy', 'setdefault', 'update', 'pop', 'clear'),
    set: ('add', 'update', 'discard', 'remove', 'copy', 'isdisjoint', 'issubset', 'issuperset', 'union', 'intersection', 'difference', 'pop', 'clear'),
    frozenset: ('isdisjoint', 'issubset', 'issuperset', 'union', 'intersection', 'difference', 'copy'),
    str: ('startswith', 'endswith', 'join', 'format', 'strip', 'split', 'upper', 'lower', 'isupper', 'islower', 'isalnum', 'isdigit', 'isdecimal', 'replace', 'find', 'index', 'count',
          'splitlines', 'lstrip', 'rstrip', 'isalpha', 'isspace', 'partition', 'rpartition', 'rsplit', 'isidentifier', 'rfind', 'title', 'capitalize',
          'ljust', 'rjust', 'center', 'zfill', 'removeprefix', 'removesuffix', 'istitle', 'isnumeric'),
    tuple: ('index', 'count'),
}
import io as _io
import re as _re
# values of the standard library that the evaluator lets a model hold: compiled patterns, match objects, string buffers
SAFE_METHODS[_re.Match] = ('group', 'groups', 'start', 'end', 'span', 'groupdict')
SAFE_METHODS[_re.Pattern] = ('fullmatch', 'match', 'search', 'split', 'findall', 'sub')
SAFE_METHODS[_io.StringIO] = ('write', 'getvalue', 'close')
import collections as _collections
SAFE_METHODS[_collections.deque] = ('append', 'appendleft', 'pop', 'popleft', 'extend', 'clear', 'copy', 'count', 'remove', 'reverse')
RE_FUNCTIONS = ('fullmatch', 'match', 'search', 'split', 'findall', 'sub', 'compile', 'escape')
# the part of the exception hierarchy the models meet
EXC_PARENTS = {'KeyError': 'LookupError', 'IndexError': 'LookupError', 'LookupError': 'Exception', 'ZeroDivisionError': 'ArithmeticError', 'ArithmeticError': 'Exception',
               'ValueError': 'Exception', 'TypeError': 'Exception', 'AssertionError': 'Exception', 'RuntimeError': 'Exception', 'StopIteration': 'Exception',
               'AttributeError': 'Exception', 'NotImplementedError': 'RuntimeError', 'RecursionError': 'RuntimeError', 'UnicodeError': 'ValueError',
               'Exception': 'BaseException'}
import string as _string
STD_CONSTANTS = {'string.ascii_uppercase': _string.ascii_uppercase, 'string.ascii_lowercase': _string.ascii_lowercase, 'string.ascii_letters': _string.ascii_letters, 'string.digits': _string.digits}
BUILTINS = {
    'len': len, 'max': max, 'min': min, 'range': range, 'list': list, 'set': set, 'dict': dict, 'tuple': tuple, 'sorted': sorted, 'any': any, 'all': all,
    'str': str, 'int': int, 'bool': bool, 'enumerate': enumerate, 'zip': zip, 'reversed': reversed, 'frozenset': frozenset, 'sum': sum, 'abs': abs, 'repr': repr,
}


class Obj:
    """a record with named fields (the automaton handed to the function under evaluation)"""

    def __init__(self, cls='object', **fields):
        self.__dict__['_cls'] = cls
        self.__dict__['_f'] = dict(fields)

    def __repr__(self):
        return '<{} {}>'.format(self._cls, self._f)

    def __eq__(self, other):
        # value classes of the repository (PDAState, Rule ...) define __eq__ over their fields; modelled objects compare so
        return isinstance(other, Obj) and self._cls == other._cls and self._f == other._f

    def __ne__(self, other):
        return not self.__eq__(other)

    def __hash__(self):
        return hash((self._cls, repr(sorted(self._f.items(), key=lambda kv: kv[0]))))


class Raised(Exception):
    def __init__(self, name, msg=None):
        Exception.__init__(self, name)
        self.name = name
        self.msg = msg


class ExcVal:
    """the value bound by `except X as e` in a model: prints as its message"""

    def __init__(self, name, msg):
        self.name, self.msg = name, msg

    def __str__(self):
        return '' if self.msg is None else str(self.msg)

    __repr__ = __str__


class _Return(Exception):
    def __init__(self, value):
        self.value = value


class _Break(Exception):
    pass


class _Continue(Exception):
    pass


class Closure:
    def __init__(self, f, node, env):
        self.f, self.node, self.env = f, node, env


def _walk_own(fnode):
    """nodes of a function body without the bodies of nested functions / lambdas"""
    stack = list(fnode.body)
    while stack:
        n = stack.pop()
        yield n
        if isinstance(n, (ast.FunctionDef, ast.Lambda, ast.AsyncFunctionDef)):
            continue    # a nested definition at the top level of the body: its `yield`s are its own
        for c in ast.iter_child_nodes(n):
            if not isinstance(c, (ast.FunctionDef, ast.Lambda, ast.AsyncFunctionDef)):
                stack.append(c)


class GenProxy:
    """a generator FUNCTION of the analysed source (its body contains `yield`): the body is evaluated in a helper thread
    that hands its values over one at a time, so that side effects between two yields happen when the consumer asks for
    the next value -- as in Python"""

    def __init__(self, interp, f, args, kwargs, closure=None):
        import queue
        import threading
        self.interp, self.f, self.args, self.kwargs = interp, f, args, kwargs
        self.closure = closure      # a nested generator function (a Closure) instead of a FuncInfo
        self.q_out, self.q_in = queue.Queue(), queue.Queue()
        self.thread = None
        self.done = False
        self._threading = threading

    def _run(self):
        sub = Interp(self.interp.ctx, stubs=self.interp.stubs, max_steps=self.interp.max_steps, classes=self.interp.classes)
        sub.steps = self.interp.steps
        sub.set_order = self.interp.set_order
        sub.copy_records = getattr(self.interp, "copy_records", False)
        if hasattr(self.interp, 'superclasses'):
            sub.superclasses = self.interp.superclasses

        def hook(v):
            self.q_out.put(('yield', v))
            if self.q_in.get() == 'stop':
                raise _Stop()
        sub._yield_hook = hook
        try:
            self.q_in.get()
            if self.closure is not None:
                sub._call_closure(self.closure, self.args, self.kwargs)
            else:
                sub._call(self.f, self.args, self.kwargs)
            self.q_out.put(('end', None))
        except _Stop:
            self.q_out.put(('end', None))
        except Raised as ex:
            self.q_out.put(('raise', ex))
        except Unsupported as ex:
            self.q_out.put(('unsupported', ex))
        except BaseException as ex:      # pragma: no cover
            self.q_out.put(('unsupported', Unsupported(repr(ex))))

    def __iter__(self):
        return self

    def __next__(self):
        if self.done:
            raise StopIteration
        if self.thread is None:
            self.thread = self._threading.Thread(target=self._run, daemon=True)
            self.thread.start()
        self.q_in.put('go')
        kind, v = self.q_out.get()
        if kind == 'yield':
            return v
        self.done = True
        if kind == 'raise' or kind == 'unsupported':
            raise v
        raise StopIteration

    def close(self):
        if self.thread is not None and not self.done:
            self.done = True
            self.q_in.put('stop')


class _Stop(Exception):
    pass


class Interp:
    def __init__(self, ctx, stubs=None, max_steps=20000, classes=None):
        self.ctx = ctx
        self.stubs = stubs or {}            # qualified short name / plain name -> python callable(interp, args, kwargs)
        self.steps = 0
        self.max_steps = max_steps
        self.classes = classes or {}        # class name -> python callable building an Obj
        self.depth = 0
        # None: sets are iterated in the host's order (as before); 'asc' / 'desc': in ascending / descending order of the printed
        # elements -- a rule that wants a deterministic verdict and two different internal choice orders runs its models under both
        self.set_order = None

    # -- functions ------------------------------------------------------------------------------------------------------
    def apply(self, f, fn, args):
        """call a function VALUE (closure, builtin, class or function name) with positional arguments"""
        if isinstance(fn, Closure):
            return self.call_closure(fn, args, {})
        if callable(fn) and not isinstance(fn, tuple):
            return fn(*args)
        if isinstance(fn, tuple) and fn and fn[0] == '$name':
            short = fn[1].split('.')[-1]
            if short in self.classes:
                return self.classes[short](*args)
            try:
                r = self.ctx.prog.resolve_expr(f, f.module, ast.parse(fn[1], mode='eval').body)
            except Exception:
                r = None
            if r is not None and r.kind == 'func':
                return self.call(r.target, args, {})
        raise Unsupported('call of a function value')

    def call(self, f, args, kwargs=None):
        if any(isinstance(n, (ast.Yield, ast.YieldFrom)) for n in _walk_own(f.node)):
            return GenProxy(self, f, list(args), dict(kwargs or {}))
        return self._call(f, args, kwargs)

    def _call(self, f, args, kwargs=None):
        kwargs = dict(kwargs or {})
        self.depth += 1
        if self.depth > 30:
            raise Unsupported('recursion too deep')
        node = f.node
        a = node.args
        if a.kwarg or a.posonlyargs:
            raise Unsupported('signature of ' + f.name)
        names = [x.arg for x in a.args]
        env = {}
        if len(args) > len(names):
            if not a.vararg:
                raise Unsupported('too many arguments for ' + f.name)
            env[a.vararg.arg] = tuple(args[len(names):])
            args = args[:len(names)]
        elif a.vararg:
            env[a.vararg.arg] = ()
        for n, v in zip(names, args):
            env[n] = v
        defaults = dict(zip(names[len(names) - len(a.defaults):], a.defaults))
        for n in names[len(args):]:
            if n in kwargs:
                env[n] = kwargs.pop(n)
            elif n in defaults:
                env[n] = self.ev(f, defaults[n], {})
            else:
                raise Unsupported('missing argument {} of {}'.format(n, f.name))
        for ko, kd in zip(a.kwonlyargs, a.kw_defaults):
            if ko.arg in kwargs:
                env[ko.arg] = kwargs.pop(ko.arg)
            elif kd is not None:
                env[ko.arg] = self.ev(f, kd, {})
        if kwargs:
            raise Unsupported('unexpected keyword of ' + f.name)
        try:
            self.block(f, node.body, env)
            out = None
        except _Return as r:
            out = r.value
        self.depth -= 1
        return out

    def tick(self):
        self.steps += 1
        if self.steps > self.max_steps:
            raise Unsupported('step budget of the finite model exhausted')

    # -- statements -----------------------------------------------------------------------------------------------------
    def block(self, f, stmts, env):
        for st in stmts:
            self.stmt(f, st, env)

    def stmt(self, f, st, env):
        self.tick()
        if isinstance(st, ast.Expr):
            if isinstance(st.value, ast.Constant):
                return
            self.ev(f, st.value, env)
            return
        if isinstance(st, ast.Assign):
            v = self.ev(f, st.value, env)
            for t in st.targets:
                self.assign(f, t, v, env)
            return
        if isinstance(st, ast.AnnAssign):
            if st.value is not None:
                self.assign(f, st.target, self.ev(f, st.value, env), env)
            return
        if isinstance(st, ast.AugAssign):
            cur = self.ev(f, st.target, env)
            v = self.ev(f, st.value, env)
            if isinstance(cur, (list, set, dict)) and isinstance(st.op, (ast.Add, ast.BitOr, ast.BitAnd, ast.Sub)):
                # in-place operators of the mutable containers keep the identity of the object
                if isinstance(cur, list) and isinstance(st.op, ast.Add):
                    cur.extend(v)
                elif isinstance(cur, set) and isinstance(st.op, ast.BitOr):
                    cur |= v
                elif isinstance(cur, set) and isinstance(st.op, ast.BitAnd):
                    cur &= v
                elif isinstance(cur, set) and isinstance(st.op, ast.Sub):
                    cur -= v
                elif isinstance(cur, dict) and isinstance(st.op, ast.BitOr):
                    cur.update(v)
                else:
                    raise Unsupported('augmented assignment')
                self.assign(f, st.target, cur, env)
                return
            self.assign(f, st.target, self.binop(st.op, cur, v), env)
            return
        if isinstance(st, ast.If):
            self.block(f, st.body if self.truth(self.ev(f, st.test, env)) else st.orelse, env)
            return
        if isinstance(st, ast.For):
            it = self.ev(f, st.iter, env)
            broke = False
            for x in self.iterate(it):
                self.tick()
                self.assign(f, st.target, x, env)
                try:
                    self.block(f, st.body, env)
                except _Break:
                    broke = True
                    break
                except _Continue:
                    continue
            if not broke:
                self.block(f, st.orelse, env)
            return
        if isinstance(st, ast.While):
            broke = False
            while self.truth(self.ev(f, st.test, env)):
                self.tick()
                try:
                    self.block(f, st.body, env)
                except _Break:
                    broke = True
                    break
                except _Continue:
                    continue
            if not broke:
                self.block(f, st.orelse, env)
            return
        if isinstance(st, ast.Return):
            raise _Return(self.ev(f, st.value, env) if st.value is not None else None)
        if isinstance(st, ast.Raise):
            name = 'Exception'
            msg = None
            if st.exc is None:
                cur = getattr(self, '_handling', None)
                if cur:
                    raise Raised(cur[-1].name, cur[-1].msg)
            if st.exc is not None:
                if isinstance(st.exc, ast.Name) and isinstance(env.get(st.exc.id), ExcVal):
                    raise Raised(env[st.exc.id].name, env[st.exc.id].msg)
                e = st.exc.func if isinstance(st.exc, ast.Call) else st.exc
                name = ast.unparse(e).split('.')[-1]
                if isinstance(st.exc, ast.Call) and len(st.exc.args) == 1 and not st.exc.keywords:
                    try:
                        msg = self.ev(f, st.exc.args[0], env)
                    except Unsupported:
                        msg = None
            raise Raised(name, msg)
        if isinstance(st, ast.Try):
            try:
                try:
                    self.block(f, st.body, env)
                except Raised as r:
                    h = self._handler_for(st, r)
                    if h is None:
                        raise
                    if h.name:
                        env[h.name] = ExcVal(r.name, r.msg)
                    if not hasattr(self, '_handling'):
                        self._handling = []
                    self._handling.append(r)
                    try:
                        self.block(f, h.body, env)
                    finally:
                        self._handling.pop()
                else:
                    self.block(f, st.orelse, env)
            finally:
                if st.finalbody:
                    self.block(f, st.finalbody, env)
            return
        if isinstance(st, ast.Assert):
            if not self.truth(self.ev(f, st.test, env)):
                raise Raised('AssertionError')
            return
        if isinstance(st, (ast.Pass, ast.Import, ast.ImportFrom, ast.Global, ast.Nonlocal)):
            return
        if isinstance(st, ast.Break):
            raise _Break()
        if isinstance(st, ast.Continue):
            raise _Continue()
        if isinstance(st, ast.FunctionDef):
            env[st.name] = Closure(f, st, env)
            return
        if isinstance(st, ast.Delete):
            for t in st.targets:
                if isinstance(t, ast.Subscript) and not isinstance(t.slice, ast.Slice):
                    base = self.ev(f, t.value, env)
                    key = self.ev(f, t.slice, env)
                    if not isinstance(base, (list, dict)):
                        raise Unsupported('del on ' + type(base).__name__)
                    try:
                        del base[key]
                    except KeyError:
                        raise Raised('KeyError')
                    except IndexError:
                        raise Raised('IndexError')
                elif isinstance(t, ast.Name) and t.id in env:
                    del env[t.id]
                else:
                    raise Unsupported('del of ' + type(t).__name__)
            return
        raise Unsupported('statement ' + type(st).__name__)

    @staticmethod
    def _handler_for(st, r):
        """the first handler of the try statement that catches the modelled exception (by name, along EXC_PARENTS)"""
        chain = [r.name]
        while chain[-1] in EXC_PARENTS:
            chain.append(EXC_PARENTS[chain[-1]])
        known = r.name in EXC_PARENTS or r.name == 'BaseException'
        for h in st.handlers:
            if h.type is None:
                return h
            ts = h.type.elts if isinstance(h.type, ast.Tuple) else [h.type]
            for t in ts:
                n = ast.unparse(t).split('.')[-1]
                if n in chain:
                    return h
                if n in ('Exception', 'BaseException') and not known:
                    # an exception class of the repository: assumed to derive from Exception (a BaseException subclass would be odd)
                    return h
                if n not in EXC_PARENTS and n != 'BaseException' and not known:
                    raise Unsupported('exception class {} against handler {}'.format(r.name, n))
        return None

    def assign(self, f, t, v, env):
        if isinstance(t, ast.Name):
            env[t.id] = v
        elif isinstance(t, (ast.Tuple, ast.List)):
            vs = list(self.iterate(v))
            if any(isinstance(x, ast.Starred) for x in t.elts) or len(vs) != len(t.elts):
                raise Unsupported('unpacking ' + ast.unparse(t))
            for x, y in zip(t.elts, vs):
                self.assign(f, x, y, env)
        elif isinstance(t, ast.Subscript):
            base = self.ev(f, t.value, env)
            if isinstance(t.slice, ast.Slice):
                lo = self.ev(f, t.slice.lower, env) if t.slice.lower is not None else None
                hi = self.ev(f, t.slice.upper, env) if t.slice.upper is not None else None
                if not isinstance(base, list):
                    raise Unsupported('slice store')
                base[lo:hi] = list(self.iterate(v))
                return
            k = self.ev(f, t.slice, env)
            if not isinstance(base, (list, dict)):
                raise Unsupported('item store into ' + type(base).__name__)
            try:
                base[k] = v
            except (IndexError, KeyError, TypeError) as e:
                raise Raised(type(e).__name__)
        elif isinstance(t, ast.Attribute):
            base = self.ev(f, t.value, env)
            if not isinstance(base, Obj):
                raise Unsupported('attribute store')
            base._f[t.attr] = v
        else:
            raise Unsupported('assignment target ' + type(t).__name__)

    # -- expressions ----------------------------------------------------------------------------------------------------
    @staticmethod
    def truth(v):
        if isinstance(v, Obj):
            return True
        return bool(v)

    def iterate(self, v):
        if isinstance(v, tuple) and v and v[0] in ('$name', '$method'):
            raise Unsupported('iteration over an unresolved name ' + str(v[1] if v[0] == '$name' else v[2]))
        if self.set_order is not None and isinstance(v, (set, frozenset)):
            return sorted(v, key=repr, reverse=(self.set_order == 'desc'))
        if isinstance(v, (list, tuple, set, frozenset, dict, str, range, _collections.deque)) or hasattr(v, '__next__') or type(v).__name__ in ('dict_items', 'dict_keys', 'dict_values', 'enumerate', 'zip', 'reversed', 'count', 'GenProxy'):
            return v
        raise Unsupported('iteration over ' + type(v).__name__)

    def binop(self, op, a, b):
        try:
            if isinstance(op, ast.Add):
                return a + b
            if isinstance(op, ast.Sub):
                return a - b
            if isinstance(op, ast.Mult):
                return a * b
            if isinstance(op, ast.FloorDiv):
                return a // b
            if isinstance(op, ast.Mod):
                if isinstance(a, str):
                    raise Unsupported('string formatting with %')
                return a % b
            if isinstance(op, ast.BitOr):
                return a | b
            if isinstance(op, ast.BitAnd):
                return a & b
            if isinstance(op, ast.BitXor):
                return a ^ b
        except TypeError:
            raise Raised('TypeError')
        raise Unsupported('operator ' + type(op).__name__)

    def comp(self, f, e, env, kind):
        out = []

        def rec(i, env2):
            if i == len(e.generators):
                if kind == 'dict':
                    out.append((self.ev(f, e.key, env2), self.ev(f, e.value, env2)))
                else:
                    out.append(self.ev(f, e.elt, env2))
                return
            g = e.generators[i]
            for x in self.iterate(self.ev(f, g.iter, env2)):
                self.tick()
                env3 = dict(env2)
                self.assign(f, g.target, x, env3)
                if all(self.truth(self.ev(f, c, env3)) for c in g.ifs):
                    rec(i + 1, env3)
        rec(0, env)
        return out

    def lazy_gen(self, f, e, env):
        """a generator expression is evaluated on demand (its source may be unbounded, its consumer may stop early); the
        first iterable is evaluated at once, as in Python"""
        first = self.iterate(self.ev(f, e.generators[0].iter, env))

        def rec(i, env2, src=None):
            if i == len(e.generators):
                yield self.ev(f, e.elt, env2)
                return
            g = e.generators[i]
            it = src if src is not None else self.iterate(self.ev(f, g.iter, env2))
            for x in it:
                self.tick()
                env3 = dict(env2)
                self.assign(f, g.target, x, env3)
                if all(self.truth(self.ev(f, c, env3)) for c in g.ifs):
                    yield from rec(i + 1, env3)
        return rec(0, env, first)

    def ev(self, f, e, env):
        self.tick()
        if e is None:
            return None
        if isinstance(e, ast.Constant):
            return e.value
        if isinstance(e, ast.Name):
            if e.id in env:
                return env[e.id]
            if e.id in BUILTINS:
                return BUILTINS[e.id]
            if e.id in ('True', 'False', 'None'):
                return {'True': True, 'False': False, 'None': None}[e.id]
            try:
                r0 = self.ctx.prog._lookup_in_module(f.module.name, e.id)
            except Exception:
                r0 = None
            if r0 is not None and r0.kind == 'global':
                # a module-level constant written as a literal (a tuple of directions, a set of keywords): its value
                node0 = r0.target[0].globals.get(r0.target[1])
                try:
                    if isinstance(node0, ast.Call) and isinstance(node0.func, ast.Name) and node0.func.id in ('frozenset', 'set', 'tuple', 'list') and len(node0.args) == 1 and not node0.keywords:
                        return {'frozenset': frozenset, 'set': set, 'tuple': tuple, 'list': list}[node0.func.id](ast.literal_eval(node0.args[0]))
                    if node0 is not None:
                        return ast.literal_eval(node0)
                except (ValueError, TypeError, SyntaxError):
                    pass
                if isinstance(node0, (ast.List, ast.Tuple, ast.Dict, ast.Set, ast.Lambda)) and getattr(self, '_global_depth', 0) < 3:
                    # a module-level table (of classes, functions, lambdas): its displays are evaluated in the module that defines it
                    m0 = r0.target[0]
                    holder = next(iter(m0.functions.values()), None)
                    if holder is not None:
                        self._global_depth = getattr(self, '_global_depth', 0) + 1
                        try:
                            return self.ev(holder, node0, {})
                        finally:
                            self._global_depth -= 1
            return ('$name', e.id)          # a module-level name: resolved when called
        if isinstance(e, ast.Tuple):
            return tuple(self.ev(f, x, env) for x in e.elts)
        if isinstance(e, ast.List):
            return [self.ev(f, x, env) for x in e.elts]
        if isinstance(e, ast.Set):
            return {self.ev(f, x, env) for x in e.elts}
        if isinstance(e, ast.Dict):
            if any(k is None for k in e.keys):
                raise Unsupported('dict unpacking')
            return {self.ev(f, k, env): self.ev(f, v, env) for k, v in zip(e.keys, e.values)}
        if isinstance(e, ast.ListComp):
            return self.comp(f, e, env, 'list')
        if isinstance(e, ast.SetComp):
            return set(self.comp(f, e, env, 'set'))
        if isinstance(e, ast.GeneratorExp):
            return self.lazy_gen(f, e, dict(env))
        if isinstance(e, ast.DictComp):
            return dict(self.comp(f, e, env, 'dict'))
        if isinstance(e, ast.UnaryOp):
            v = self.ev(f, e.operand, env)
            if isinstance(e.op, ast.Not):
                return not self.truth(v)
            if isinstance(e.op, ast.USub):
                return -v
            raise Unsupported('unary operator')
        if isinstance(e, ast.BoolOp):
            r = None
            for x in e.values:
                r = self.ev(f, x, env)
                if isinstance(e.op, ast.And) and not self.truth(r):
                    return r
                if isinstance(e.op, ast.Or) and self.truth(r):
                    return r
            return r
        if isinstance(e, ast.IfExp):
            return self.ev(f, e.body if self.truth(self.ev(f, e.test, env)) else e.orelse, env)
        if isinstance(e, ast.BinOp):
            return self.binop(e.op, self.ev(f, e.left, env), self.ev(f, e.right, env))
        if isinstance(e, ast.Compare):
            left = self.ev(f, e.left, env)
            for op, c in zip(e.ops, e.comparators):
                right = self.ev(f, c, env)
                t = type(op)
                try:
                    if t in (ast.Lt, ast.Gt, ast.LtE, ast.GtE) and (isinstance(left, Obj) or isinstance(right, Obj)):
                        if t is ast.Lt:
                            r = self.objless(left, right)
                        elif t is ast.Gt:
                            r = self.objless(right, left)
                        else:
                            raise Unsupported('<= / >= between modelled objects')
                    elif t is ast.Eq:
                        r = left == right
                    elif t is ast.NotEq:
                        r = left != right
                    elif t is ast.Lt:
                        r = left < right
                    elif t is ast.LtE:
                        r = left <= right
                    elif t is ast.Gt:
                        r = left > right
                    elif t is ast.GtE:
                        r = left >= right
                    elif t is ast.Is:
                        r = left is right or (left is None and right is None) or (isinstance(left, bool) and isinstance(right, bool) and left == right)
                    elif t is ast.IsNot:
                        r = not (left is right or (isinstance(left, bool) and isinstance(right, bool) and left == right))
                    elif t is ast.In:
                        r = left in right
                    elif t is ast.NotIn:
                        r = left not in right
                    else:
                        raise Unsupported('comparison')
                except TypeError:
                    raise Raised('TypeError')
                if not r:
                    return False
                left = right
            return True
        if isinstance(e, ast.Subscript):
            base = self.ev(f, e.value, env)
            try:
                if isinstance(e.slice, ast.Slice):
                    lo = self.ev(f, e.slice.lower, env) if e.slice.lower is not None else None
                    hi = self.ev(f, e.slice.upper, env) if e.slice.upper is not None else None
                    st = self.ev(f, e.slice.step, env) if e.slice.step is not None else None
                    return base[lo:hi:st]
                return base[self.ev(f, e.slice, env)]
            except IndexError:
                raise Raised('IndexError')
            except KeyError:
                raise Raised('KeyError')
            except TypeError:
                raise Unsupported('subscript of ' + type(base).__name__)
        if isinstance(e, ast.Attribute):
            base = self.ev(f, e.value, env)
            if isinstance(base, Obj):
                if e.attr in base._f:
                    return base._f[e.attr]
                if getattr(self, 'real_classes', False):
                    found, v = self._class_attr(base._cls, e.attr)
                    if found:
                        return v
                return ('$method', base, e.attr)
            if isinstance(base, tuple) and base and base[0] == '$super':
                return ('$supermethod', base[1], base[2], e.attr)
            if base is None:
                # certain: Python raises here whatever the evaluator models
                ex0 = Raised('AttributeError', "'NoneType' object has no attribute '{}'".format(e.attr))
                ex0.certain = True
                raise ex0
            if isinstance(base, ExcVal) and e.attr == 'args':
                return (base.msg,) if base.msg is not None else ()
            if isinstance(base, tuple) and base and base[0] == '$name':
                full = base[1] + '.' + e.attr
                consts = getattr(self, 'constants', None)
                if consts and full in consts:
                    return consts[full]
                if full in STD_CONSTANTS:
                    return STD_CONSTANTS[full]
                return ('$name', full)
            return ('$method', base, e.attr)
        if isinstance(e, ast.JoinedStr):
            out = ''
            for v in e.values:
                out += str(self.objstr(self.ev(f, v.value, env))) if isinstance(v, ast.FormattedValue) else str(v.value)
            return out
        if isinstance(e, ast.Lambda):
            fn = ast.FunctionDef(name='<lambda>', args=e.args, body=[ast.Return(value=e.body)], decorator_list=[], returns=None, type_comment=None)
            return Closure(f, fn, env)
        if isinstance(e, ast.Yield):
            hook = getattr(self, '_yield_hook', None)
            if hook is None:
                raise Unsupported('yield outside a generator function')
            hook(self.ev(f, e.value, env) if e.value is not None else None)
            return None
        if isinstance(e, ast.Starred):
            raise Unsupported('starred expression')
        if isinstance(e, ast.Call):
            return self.evcall(f, e, env)
        raise Unsupported('expression ' + type(e).__name__)

    def evcall(self, f, e, env):
        args = []
        for a in e.args:
            if isinstance(a, ast.Starred):
                args.extend(list(self.iterate(self.ev(f, a.value, env))))
            else:
                args.append(self.ev(f, a, env))
        kwargs = {}
        for k in e.keywords:
            if k.arg is None:
                raise Unsupported('** argument')
            kwargs[k.arg] = self.ev(f, k.value, env)
        if isinstance(e.func, ast.Name) and e.func.id == 'super' and not e.args and not e.keywords and getattr(self, 'real_classes', False):
            if f.cls is None or not f.node.args.args or f.node.args.args[0].arg not in env:
                raise Unsupported('super() outside a method')
            return ('$super', env[f.node.args.args[0].arg], f.cls)
        fn = self.ev(f, e.func, env)
        if isinstance(fn, tuple) and fn and fn[0] == '$supermethod':
            _, obj0, cls0, name0 = fn
            for b in cls0.base_names:
                r0 = self.ctx.prog._lookup_in_module(cls0.module.name, b.split('.')[-1])
                if r0 is not None and r0.kind == 'class':
                    m0 = self.ctx.prog.find_method(r0.target, name0)
                    if m0 is not None:
                        return self.call(m0, [obj0] + args, kwargs)
            if name0 == '__init__' and not args and not kwargs:
                return None
            raise Unsupported('super().{}'.format(name0))
        # python builtins of the model
        if fn in BUILTINS.values() and not isinstance(fn, tuple):
            try:
                if fn in (max, min, sorted) and 'key' in kwargs and isinstance(kwargs['key'], Closure):
                    cl = kwargs['key']
                    kwargs['key'] = lambda x, cl=cl: self.call_closure(cl, [x], {})
                if fn in (max, min, sorted) and isinstance(kwargs.get('key'), tuple) and kwargs['key'] and kwargs['key'][0] == '$method' \
                        and isinstance(kwargs['key'][1], dict) and kwargs['key'][2] in ('get', '__getitem__'):
                    # key=table.get: a bound method of a plain mapping
                    kwargs['key'] = getattr(kwargs['key'][1], kwargs['key'][2])
                # a function VALUE of the model that Python itself cannot call: the evaluator does not know, it must not guess
                for v0 in list(args) + list(kwargs.values()):
                    if isinstance(v0, tuple) and v0 and v0[0] in ('$method', '$name'):
                        raise Unsupported('function value handed to a builtin')
                if fn is str and len(args) == 1 and not kwargs and isinstance(args[0], Obj):
                    return self.objstr(args[0])
                if fn in (sorted, min, max) and len(args) == 1 and 'key' not in kwargs:
                    xs0 = list(self.iterate(args[0]))
                    if any(isinstance(x0, Obj) for x0 in xs0):
                        import functools
                        it0 = self

                        def cmp0(a0, b0):
                            if it0.objless(a0, b0):
                                return -1
                            if it0.objless(b0, a0):
                                return 1
                            return 0
                        kwargs = dict(kwargs)
                        kwargs['key'] = functools.cmp_to_key(cmp0)
                        args = [xs0]
                return fn(*args, **kwargs)
            except (ValueError, TypeError, StopIteration) as ex:
                raise Raised(type(ex).__name__)
        if isinstance(fn, Closure):
            return self.call_closure(fn, args, kwargs)
        if isinstance(fn, tuple) and fn and fn[0] == '$method':
            base, name = fn[1], fn[2]
            if isinstance(base, Obj):
                key = '{}.{}'.format(base._cls, name)
                if key in self.stubs:
                    return self.stubs[key](self, [base] + args, kwargs)
                # a method of the modelled class: evaluate its body
                for c in self.ctx.prog.classes.values():
                    if c.name == base._cls and name in c.methods and not c.module.name.startswith('template:'):
                        return self.call(c.methods[name], self._bound(c.methods[name], base, args), kwargs)
                if getattr(self, 'real_classes', False):
                    for c in self.ctx.prog.classes.values():
                        if c.name == base._cls and not c.module.name.startswith('template:'):
                            m0 = self.ctx.prog.find_method(c, name)
                            if m0 is not None:
                                return self.call(m0, self._bound(m0, base, args), kwargs)
                raise Unsupported('method {} of {}'.format(name, base._cls))
            if self.set_order is not None and isinstance(base, set) and name == 'pop' and not args:
                if not base:
                    raise Raised('KeyError')
                x0 = sorted(base, key=repr, reverse=(self.set_order == 'desc'))[0]
                base.discard(x0)
                return x0
            for ty, names in SAFE_METHODS.items():
                if isinstance(base, ty) and name in names:
                    if isinstance(base, str) and name == 'join':
                        args = [list(self.iterate(args[0]))]
                    if isinstance(base, str) and name == 'format':
                        args = [self.objstr(a0) for a0 in args]
                        kwargs = {k0: self.objstr(a0) for k0, a0 in kwargs.items()}
                    try:
                        r = getattr(base, name)(*args, **kwargs)
                    except KeyError:
                        raise Raised('KeyError')
                    except (IndexError, ValueError, TypeError) as ex:
                        raise Raised(type(ex).__name__)
                    if type(r).__name__ in ('dict_items', 'dict_keys', 'dict_values'):
                        return list(r)
                    return r
            raise Unsupported('method {} of {}'.format(name, type(base).__name__))
        if isinstance(fn, tuple) and fn and fn[0] == '$name':
            name = fn[1]
            short = name.split('.')[-1]
            if name in self.stubs or short in self.stubs:
                return (self.stubs.get(name) or self.stubs[short])(self, args, kwargs)
            if short in self.classes and self.classes[short] == 'real':
                # the rule asks for the class as the analysed tree defines it (its __init__ is evaluated)
                for c0 in self.ctx.prog.classes.values():
                    if c0.name == short and not c0.module.name.startswith('template:'):
                        return self.instantiate(c0, args, kwargs)
                raise Unsupported('class {} not found'.format(short))
            if short in self.classes:
                return self.classes[short](*args, **kwargs)
            if short in CASTS and len(args) == 1 and not kwargs:
                return args[0]
            if short == 'isinstance' and len(args) == 2:
                # modelled objects carry their class name; the classes asked for are names of the repository
                ks = args[1] if isinstance(args[1], (tuple, list)) and not (args[1] and args[1][0] == '$name') else [args[1]]
                names = []
                for k0 in ks:
                    if isinstance(k0, tuple) and k0 and k0[0] == '$name':
                        names.append(k0[1].split('.')[-1])
                    elif k0 in (str, int, list, set, tuple, dict, frozenset, bool):
                        names.append(k0)
                    elif any(k0 is c0 for c0 in self.classes.values()):
                        # the name of a modelled class evaluated to the rule's constructor stub: it still names that class
                        names.append([n0 for n0, c0 in self.classes.items() if c0 is k0][0])
                    else:
                        raise Unsupported('isinstance in a finite model')
                gc0 = getattr(args[0], '_gt_cls', None)
                if gc0 is not None and not isinstance(args[0], Obj):
                    # a model value that is a python string AND carries the repository class it stands for (Variable / Terminal)
                    return any((n0 == gc0) if isinstance(n0, str) else isinstance(args[0], n0) for n0 in names)
                if isinstance(args[0], Obj):
                    sup = getattr(self, 'superclasses', {}).get(args[0]._cls, ())
                    if getattr(self, 'real_classes', False):
                        sup = set(sup) | self.superclass_names(args[0]._cls)
                    return any(isinstance(n0, str) and (n0 == args[0]._cls or n0 in sup) for n0 in names)
                pyts = tuple(n0 for n0 in names if not isinstance(n0, str))
                if any(isinstance(n0, str) for n0 in names) and not isinstance(args[0], Obj):
                    if pyts and isinstance(args[0], pyts):
                        return True
                    raise Unsupported('isinstance in a finite model')
                return isinstance(args[0], pyts)
            if short in ('print', 'log'):
                if short == 'print' and getattr(self, 'printed', None) is not None:
                    self.printed.append(kwargs.get('sep', ' ').join(str(self.objstr(a)) for a in args))
                return None
            if name.startswith('re.') and short in RE_FUNCTIONS and f.module.imports.get('re', (None, None))[1] == 're':
                for v0 in list(args) + list(kwargs.values()):
                    if not isinstance(v0, (str, int, _re.Pattern)):
                        raise Unsupported('argument of re.' + short)
                try:
                    return getattr(_re, short)(*args, **kwargs)
                except _re.error:
                    raise Raised('error')
                except TypeError:
                    raise Raised('TypeError')
            if short in ('setattr', 'getattr', 'hasattr') and name == short and args and isinstance(args[0], Obj) and len(args) >= 2 and isinstance(args[1], str) and not kwargs:
                o0, a0 = args[0], args[1]
                if short == 'setattr' and len(args) == 3:
                    o0._f[a0] = args[2]
                    return None
                if short == 'hasattr' and len(args) == 2:
                    return a0 in o0._f or self._dunder(o0, a0) is not None
                if short == 'getattr' and a0 in o0._f:
                    return o0._f[a0]
                if short == 'getattr' and self._dunder(o0, a0) is not None:
                    return ('$method', o0, a0)
                if short == 'getattr' and len(args) == 3:
                    return args[2]
                if short == 'getattr':
                    ex0 = Raised('AttributeError', a0)
                    ex0.certain = True
                    raise ex0
            if name in ('collections.Counter', 'Counter') and len(args) <= 1 and not kwargs and (name != 'Counter' or f.module.imports.get('Counter') == ('symbol', 'collections', 'Counter')):
                return _collections.Counter(list(self.iterate(args[0]))) if args else _collections.Counter()
            if name in ('collections.deque', 'deque') and len(args) <= 1 and not kwargs and (name != 'deque' or f.module.imports.get('deque') == ('symbol', 'collections', 'deque')):
                return _collections.deque(list(self.iterate(args[0]))) if args else _collections.deque()
            if name in ('io.StringIO', 'StringIO') and not args and not kwargs:
                return _io.StringIO()
            if short == 'defaultdict' and len(args) <= 1 and not kwargs:
                import collections
                fac = args[0] if args else None
                if isinstance(fac, Closure):
                    return collections.defaultdict(lambda fac=fac: self.call_closure(fac, [], {}))
                if fac in (set, list, dict, int) or fac is None:
                    return collections.defaultdict(fac)
                if isinstance(fac, tuple) and fac and fac[0] == '$name' and fac[1].split('.')[-1] in self.classes:
                    return collections.defaultdict(self.classes[fac[1].split('.')[-1]])
                raise Unsupported('defaultdict factory')
            if name == 'itertools.count' and len(args) <= 2 and not kwargs:
                import itertools
                return itertools.count(*args)
            if name in ('itertools.combinations', 'itertools.combinations_with_replacement', 'itertools.permutations') and len(args) == 2:
                import itertools
                return list(getattr(itertools, short)(list(self.iterate(args[0])), args[1]))
            if name == 'itertools.groupby' and 1 <= len(args) <= 2 and set(kwargs) <= {'key'}:
                import itertools
                keyf = kwargs.get('key', args[1] if len(args) == 2 else None)
                kf = (lambda x: x) if keyf is None else (lambda x, keyf=keyf: self.apply(f, keyf, [x]))
                return [(k0, list(g0)) for k0, g0 in itertools.groupby(list(self.iterate(args[0])), key=kf)]
            if name in ('itertools.chain.from_iterable', 'chain.from_iterable') and len(args) == 1 and not kwargs:
                out0 = []
                for a0 in self.iterate(args[0]):
                    out0.extend(list(self.iterate(a0)))
                return out0
            if short in ('map', 'filter') and name == short and len(args) == 2 and not kwargs and short not in env:
                # evaluated eagerly: the functions mapped in the models have no effects whose order could matter
                fn0, xs0 = args[0], list(self.iterate(args[1]))
                if fn0 is None and short == 'filter':
                    return [x0 for x0 in xs0 if self.truth(x0)]
                if fn0 is str:
                    ys0 = [str(self.objstr(x0)) for x0 in xs0]
                elif callable(fn0) and not isinstance(fn0, tuple):
                    ys0 = [fn0(x0) for x0 in xs0]
                else:
                    ys0 = [self.apply(f, fn0, [x0]) for x0 in xs0]
                return ys0 if short == 'map' else [x0 for x0, y0 in zip(xs0, ys0) if self.truth(y0)]
            if name == 'itertools.chain':
                out0 = []
                for a0 in args:
                    out0.extend(list(self.iterate(a0)))
                return out0
            if name in ('functools.reduce', 'reduce') and len(args) in (2, 3):
                fn0, seq0 = args[0], list(self.iterate(args[1]))
                if len(args) == 3:
                    acc = args[2]
                elif seq0:
                    acc, seq0 = seq0[0], seq0[1:]
                else:
                    raise Raised('TypeError')
                for x0 in seq0:
                    acc = self.apply(f, fn0, [acc, x0])
                return acc
            if name in ('itertools.product',):
                import itertools
                rep = kwargs.get('repeat', 1)
                return list(itertools.product(*[list(self.iterate(a)) for a in args], repeat=rep))
            if name in ('copy.deepcopy', 'copy.copy', 'deepcopy'):
                import copy
                if any(isinstance(a, Obj) for a in args):
                    # a modelled object is a plain record: copying it field by field is what Python does for an instance of a
                    # class WITHOUT copy hooks.  If any class of the analysed tree defines one, the evaluator does not know.
                    if not getattr(self, 'copy_records', False):
                        raise Unsupported('copy of a modelled object')
                    hooks = ('__deepcopy__', '__copy__', '__reduce__', '__reduce_ex__', '__getstate__', '__setstate__')
                    for c0 in self.ctx.prog.classes.values():
                        if any(h in c0.methods for h in hooks) and not c0.module.name.startswith('template:'):
                            raise Unsupported('copy of a modelled object while class {} defines a copy hook'.format(c0.name))
                    if short == 'copy' or name == 'copy.copy':
                        o0 = args[0]
                        return Obj(o0._cls, **dict(o0._f))
                return copy.deepcopy(args[0])
            if short == 'set_element' and len(args) == 1:
                return sorted(args[0], key=repr)[0] if args[0] else self._raise('StopIteration')
            if short == 'next' and args:
                try:
                    return next(args[0]) if len(args) == 1 else next(args[0], args[1])
                except StopIteration:
                    raise Raised('StopIteration')
                except TypeError:
                    raise Unsupported('next of ' + type(args[0]).__name__)
            if short == 'iter' and len(args) == 1:
                return iter(sorted(args[0], key=repr)) if isinstance(args[0], (set, frozenset)) else iter(args[0])
            r = self.ctx.resolve_call(f, e)
            if r is not None and r.kind == 'func':
                return self.call(r.target, args, kwargs)
            if r is not None and r.kind == 'class' and getattr(self, 'real_classes', False) and hasattr(r.target, 'methods'):
                return self.instantiate(r.target, args, kwargs)
            # a function handed around as a value: resolve the name it was taken from
            try:
                r = self.ctx.prog.resolve_expr(f, f.module, ast.parse(name, mode='eval').body)
            except Exception:
                r = None
            if r is not None and r.kind == 'func':
                return self.call(r.target, args, kwargs)
            raise Unsupported('call of ' + name)
        raise Unsupported('call of ' + ast.unparse(e.func))

    def _raise(self, name):
        raise Raised(name)

    @staticmethod
    def _bound(m, base, args):
        """the argument list of a method call on an instance: a static method does not receive the instance"""
        decos = [ast.unparse(d) for d in m.node.decorator_list]
        if 'staticmethod' in decos:
            return list(args)
        if decos and any(d not in ('staticmethod',) for d in decos):
            raise Unsupported('decorated method ' + m.name)
        return [base] + list(args)

    # -- special methods of modelled classes -------------------------------------------------------------------------------
    def _dunder(self, o, name):
        """the method `name` the analysed tree defines for the class of the modelled object o (own or inherited), or None"""
        key = '{}.{}'.format(o._cls, name)
        if key in self.stubs:
            return self.stubs[key]
        for c in self.ctx.prog.classes.values():
            if c.name == o._cls and not c.module.name.startswith('template:'):
                m0 = self.ctx.prog.find_method(c, name)
                if m0 is not None:
                    return m0
        return None

    def objstr(self, v):
        """str(v) as Python would compute it: through the __str__ the tree defines for a modelled object"""
        if isinstance(v, Obj):
            m0 = self._dunder(v, '__str__')
            if m0 is None:
                return repr(v)
            r0 = m0(self, [v], {}) if callable(m0) else self.call(m0, [v], {})
            if not isinstance(r0, str):
                raise Raised('TypeError')
            return r0
        return v

    def objless(self, a, b):
        m0 = self._dunder(a, '__lt__') if isinstance(a, Obj) else None
        if m0 is None:
            raise Raised('TypeError')
        return self.truth(m0(self, [a, b], {}) if callable(m0) else self.call(m0, [a, b], {}))

    # -- classes of the analysed tree (only with real_classes = True) ----------------------------------------------------
    def instantiate(self, c, args, kwargs):
        """an instance of a class of the analysed tree: a record whose __init__ (own or inherited) is evaluated"""
        for b in c.base_names:
            if b.split('.')[-1] in ('str', 'int', 'tuple', 'dict', 'list', 'set', 'frozenset', 'Exception', 'Enum', 'NamedTuple'):
                raise Unsupported('class {} derives from {}'.format(c.name, b))
        o = Obj(c.name)
        init = self.ctx.prog.find_method(c, '__init__')
        if init is not None:
            self._call(init, [o] + list(args), kwargs)
        elif args or kwargs:
            raise Raised('TypeError')
        return o

    def _class_attr(self, cname, attr, seen=None):
        """(found, value) of an attribute assigned in the body of the class or of a base class"""
        seen = seen or set()
        for c in self.ctx.prog.classes.values():
            if c.name != cname or c.module.name.startswith('template:') or c.qualname in seen:
                continue
            seen.add(c.qualname)
            for st in c.node.body:
                if isinstance(st, ast.Assign) and any(isinstance(t, ast.Name) and t.id == attr for t in st.targets) or \
                        isinstance(st, ast.AnnAssign) and isinstance(st.target, ast.Name) and st.target.id == attr and st.value is not None:
                    holder = next(iter(c.methods.values()), None)
                    if holder is None:
                        raise Unsupported('class attribute of a class without methods')
                    return True, self.ev(holder, st.value, {})
            for b in c.base_names:
                found, v = self._class_attr(b.split('.')[-1], attr, seen)
                if found:
                    return True, v
        return False, None

    def superclass_names(self, cname):
        out, todo = set(), [cname]
        while todo:
            n = todo.pop()
            for c in self.ctx.prog.classes.values():
                if c.name == n and not c.module.name.startswith('template:'):
                    for b in c.base_names:
                        b = b.split('.')[-1]
                        if b not in out:
                            out.add(b)
                            todo.append(b)
        return out

    def call_closure(self, cl, args, kwargs):
        if any(isinstance(n, (ast.Yield, ast.YieldFrom)) for n in _walk_own(cl.node)):
            return GenProxy(self, cl.f, list(args), dict(kwargs or {}), closure=cl)
        return self._call_closure(cl, args, kwargs)

    def _call_closure(self, cl, args, kwargs):
        node = cl.node
        names = [x.arg for x in node.args.args]
        env = dict(cl.env)
        if node.args.vararg is not None:
            env[node.args.vararg.arg] = tuple(args[len(names):])
            args = args[:len(names)]
        if len(args) > len(names):
            raise Unsupported('closure arity')
        defaults = dict(zip(names[len(names) - len(node.args.defaults):], node.args.defaults))
        for n, v in zip(names, args):
            env[n] = v
        for n in names[len(args):]:
            if n in kwargs:
                env[n] = kwargs[n]
            elif n in defaults:
                env[n] = self.ev(cl.f, defaults[n], cl.env)
            else:
                raise Unsupported('closure argument ' + n)
        try:
            self.block(cl.f, node.body, env)
        except _Return as r:
            return r.value
        return None
