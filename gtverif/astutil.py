"""Shared syntactic helpers: guard normalisation with polarity, def/use sets, statement
lookup, expression matchers."""
import ast
from typing import List, Optional, Set, Tuple

from .cfg import cfg_of
from .model import norm


def u(e) -> str:
    return ' '.join(ast.unparse(e).split())


def names_in(e) -> Set[str]:
    return {n.id for n in ast.walk(e) if isinstance(n, ast.Name)}


def assigned_names(stmt) -> Set[str]:
    """Names (re)bound by executing this single CFG node (not descending into compound bodies)."""
    out = set()

    def tgt(t):
        if isinstance(t, ast.Name):
            out.add(t.id)
        elif isinstance(t, (ast.Tuple, ast.List)):
            for x in t.elts:
                tgt(x)
        elif isinstance(t, ast.Starred):
            tgt(t.value)
    if isinstance(stmt, ast.Assign):
        for t in stmt.targets:
            tgt(t)
    elif isinstance(stmt, (ast.AugAssign, ast.AnnAssign)):
        tgt(stmt.target)
    elif isinstance(stmt, ast.For):
        tgt(stmt.target)
    elif isinstance(stmt, ast.With):
        for it in stmt.items:
            if it.optional_vars is not None:
                tgt(it.optional_vars)
    elif isinstance(stmt, (ast.FunctionDef, ast.ClassDef)):
        out.add(stmt.name)
    elif isinstance(stmt, ast.ExceptHandler) and stmt.name:
        out.add(stmt.name)
    for n in ast.walk(stmt) if not isinstance(stmt, (ast.If, ast.While, ast.For, ast.Try, ast.With, ast.FunctionDef, ast.ClassDef)) else []:
        if isinstance(n, ast.NamedExpr):
            tgt(n.target)
    return out


# ---- guard atoms -------------------------------------------------------------------
# An atom is a tuple (kind, a, b, positive):
#   ('in', x, S, pos)        x in S / x not in S          (x, S normalised text)
#   ('empty', S, None, pos)  S is empty / S is non-empty
#   ('truthy', e, None, pos) e is truthy / falsy          (generic fallback)
#   ('disjoint', A, B, pos)
#   ('eq', a, b, pos)
#   ('cmp', text, None, pos) other comparison kept as text
#   ('isinstance', x, K, pos)

def atoms_of(test, positive=True) -> List[tuple]:
    """Conjunction of atoms implied by ``test`` evaluating to ``positive``.  Disjunctions that cannot be
    split into a conjunction yield a single ('or', [alternatives]) atom."""
    if isinstance(test, ast.UnaryOp) and isinstance(test.op, ast.Not):
        return atoms_of(test.operand, not positive)
    if isinstance(test, ast.BoolOp):
        is_and = isinstance(test.op, ast.And)
        if is_and == positive:
            out = []
            for v in test.values:
                out += atoms_of(v, positive)
            return out
        return [('or', tuple(tuple(atoms_of(v, positive)) for v in test.values), None, True)]
    if isinstance(test, ast.Compare) and len(test.ops) == 1:
        op = test.ops[0]
        l, r = test.left, test.comparators[0]
        if isinstance(op, ast.In):
            return [('in', u(l), u(r), positive)]
        if isinstance(op, ast.NotIn):
            return [('in', u(l), u(r), not positive)]
        # len(S) == 0 / > 0 / != 0 / >= 1
        if isinstance(l, ast.Call) and isinstance(l.func, ast.Name) and l.func.id == 'len' and len(l.args) == 1 \
                and isinstance(r, ast.Constant) and isinstance(r.value, int):
            s = u(l.args[0])
            k = r.value
            if isinstance(op, ast.Eq) and k == 0:
                return [('empty', s, None, positive)]
            if (isinstance(op, ast.NotEq) and k == 0) or (isinstance(op, ast.Gt) and k == 0) or (isinstance(op, ast.GtE) and k == 1):
                return [('empty', s, None, not positive)]
            return [('lencmp', s, (type(op).__name__, k), positive)]
        if isinstance(op, (ast.Eq, ast.Is)):
            if isinstance(r, ast.Constant) and r.value is False:
                return atoms_of(l, not positive)
            if isinstance(r, ast.Constant) and r.value is True:
                return atoms_of(l, positive)
            return [('eq', u(l), u(r), positive)]
        if isinstance(op, (ast.NotEq, ast.IsNot)):
            return [('eq', u(l), u(r), not positive)]
        return [('cmp', u(test), None, positive)]
    if isinstance(test, ast.Call):
        f = test.func
        if isinstance(f, ast.Attribute) and f.attr == 'isdisjoint' and len(test.args) == 1:
            return [('disjoint', u(f.value), u(test.args[0]), positive)]
        if isinstance(f, ast.Name) and f.id == 'bool' and len(test.args) == 1:
            return atoms_of(test.args[0], positive)
        if isinstance(f, ast.Name) and f.id == 'isinstance' and len(test.args) == 2:
            return [('isinstance', u(test.args[0]), u(test.args[1]), positive)]
        if isinstance(f, ast.Name) and f.id == 'len' and len(test.args) == 1:
            return [('empty', u(test.args[0]), None, not positive)]
    if isinstance(test, ast.BinOp) and isinstance(test.op, ast.BitAnd):
        return [('disjoint', u(test.left), u(test.right), not positive)]
    if isinstance(test, ast.Constant):
        return []
    return [('truthy', u(test), None, positive)]


class FuncFacts:
    """Per-function guard facts on top of the CFG."""

    def __init__(self, finfo):
        self.f = finfo
        self.cfg = cfg_of(finfo.node)

    def node_of(self, stmt):
        return self.cfg.n_of(stmt)

    def _own_roots(self, n):
        if n.stmt is None or n.kind == 'def':
            return []
        if n.kind == 'with':
            return [it.context_expr for it in n.stmt.items] + [it.optional_vars for it in n.stmt.items if it.optional_vars is not None]
        if n.kind in ('test', 'assert'):
            return [n.expr]
        if n.kind == 'for':
            return [n.expr, n.stmt.target]
        if n.kind == 'except':
            return [n.stmt.type] if n.stmt.type is not None else []
        if isinstance(n.stmt, ast.Try):
            return []
        return [n.stmt]

    def stmt_of_expr(self, expr):
        """The CFG node whose own expressions contain the given AST node (None if not found)."""
        if not hasattr(self, '_idx'):
            self._idx = {}
            for n in self.cfg.node:
                for r in self._own_roots(n):
                    for c in ast.walk(r):
                        self._idx.setdefault(id(c), n.id)
        return self._idx.get(id(expr))

    def guard_atoms(self, node_id, stable_only=True) -> List[tuple]:
        """Atoms that hold whenever control reaches ``node_id``.  With stable_only, atoms mentioning a name
        that is rebound between the guard and the node are dropped (mutation of the named container is the
        caller's concern)."""
        out = []
        for (t, lab, between) in self.cfg.guards(node_id):
            tn = self.cfg.node[t]
            if tn.kind == 'for':
                continue
            pos = bool(lab) if lab in (True, False) else None
            if pos is None:
                continue
            atoms = self._expand_named_conditions(atoms_of(tn.expr, pos))
            if stable_only:
                rebound = set()
                for b in between:
                    bn = self.cfg.node[b]
                    if bn.stmt is not None:
                        rebound |= assigned_names(bn.stmt)
                atoms = [a for a in atoms if not (self._atom_names(a) & rebound)]
            for a in atoms:
                out.append(a + (t,))
        return out

    def _expand_named_conditions(self, atoms, depth=0):
        """`ok = len(V) < 26 ... if ok:` -- a tested local name whose single definition is a condition contributes the atoms
        of that condition (the operands of the condition must not be rebound anywhere in the function)"""
        if depth > 2:
            return atoms
        out = []
        for a in atoms:
            if a[0] == 'truthy' and isinstance(a[1], str) and a[1].isidentifier():
                defs = [st.value for st in walk_no_nested(self.f.node) if isinstance(st, ast.Assign) and len(st.targets) == 1 and isinstance(st.targets[0], ast.Name) and st.targets[0].id == a[1]]
                params = {x.arg for x in self.f.node.args.args}
                if len(defs) == 1 and a[1] not in params and isinstance(defs[0], (ast.Compare, ast.BoolOp)) or (len(defs) == 1 and isinstance(defs[0], ast.UnaryOp) and isinstance(defs[0].op, ast.Not)):
                    operands = names_in(defs[0])
                    rebinds = 0
                    for st in walk_no_nested(self.f.node):
                        if isinstance(st, (ast.Assign, ast.AugAssign, ast.For)):
                            if assigned_names(st) & operands:
                                rebinds += 1
                    single = all(sum(1 for st in walk_no_nested(self.f.node) if isinstance(st, (ast.Assign, ast.AugAssign, ast.For, ast.AnnAssign)) and n in assigned_names(st)) <= 1 for n in operands)
                    if single:
                        out += self._expand_named_conditions(atoms_of(defs[0], a[3]), depth + 1)
                        continue
            out.append(a)
        return out

    @staticmethod
    def _atom_names(a):
        names = set()
        for part in a[1:3]:
            if isinstance(part, str):
                try:
                    names |= names_in(ast.parse(part, mode='eval'))
                except SyntaxError:
                    pass
        if a[0] == 'or':
            for alt in a[1]:
                for x in alt:
                    names |= FuncFacts._atom_names(x)
        return names


def find_stmts(fnode, pred, include_nested=False):
    out = []
    stack = list(fnode.body)[::-1]
    while stack:
        n = stack.pop()
        if isinstance(n, ast.stmt) and pred(n):
            out.append(n)
        kids = []
        for c in ast.iter_child_nodes(n):
            if not include_nested and isinstance(c, (ast.FunctionDef, ast.ClassDef, ast.Lambda)):
                continue
            kids.append(c)
        stack.extend(kids[::-1])
    return out


def walk_no_nested(node):
    """ast.walk that does not descend into nested function/class definitions (but does into lambdas/comprehensions)."""
    stack = [node]
    first = True
    while stack:
        n = stack.pop()
        if not first and isinstance(n, (ast.FunctionDef, ast.ClassDef)):
            continue
        first = False
        yield n
        stack.extend(ast.iter_child_nodes(n))


def is_call_to(call, *names) -> bool:
    if not isinstance(call, ast.Call):
        return False
    f = call.func
    if isinstance(f, ast.Name):
        return f.id in names
    if isinstance(f, ast.Attribute):
        return f.attr in names
    return False


def const_str(e) -> Optional[str]:
    if isinstance(e, ast.Constant) and isinstance(e.value, str):
        return e.value
    return None


def must_atoms(fx: 'FuncFacts'):
    """Forward must-analysis over the CFG: for every node the set of atoms (kind, a, b, positive) that hold on
    *all* paths reaching it.  Atoms are generated on test edges and killed when a name they mention is rebound
    (or, for membership/emptiness atoms, when the named container is mutated by a method call in a statement)."""
    if hasattr(fx, '_must'):
        return fx._must
    cfg = fx.cfg
    TOP = None
    state = {n: TOP for n in cfg.nodes()}
    state[cfg.entry] = frozenset()

    def kill(atoms, node):
        st = node.stmt
        if st is None:
            return atoms
        rebound = assigned_names(st) if node.kind in ('stmt', 'for', 'with', 'def') else set()
        mutated = set()
        if node.kind == 'stmt':
            for c in ast.walk(st):
                if isinstance(c, ast.Call) and isinstance(c.func, ast.Attribute) and isinstance(c.func.value, ast.Name) \
                        and c.func.attr in ('add', 'remove', 'discard', 'pop', 'clear', 'update', 'append', 'extend', 'insert'):
                    mutated.add(c.func.value.id)
            if isinstance(st, ast.Assign):
                for t in st.targets:
                    if isinstance(t, ast.Subscript) and isinstance(t.value, ast.Name):
                        mutated.add(t.value.id)
            if isinstance(st, ast.AugAssign):
                t = st.target
                if isinstance(t, ast.Name):
                    rebound.add(t.id)
                if isinstance(t, ast.Subscript) and isinstance(t.value, ast.Name):
                    mutated.add(t.value.id)
        if not rebound and not mutated:
            return atoms
        out = set()
        for a in atoms:
            names = FuncFacts._atom_names(a)
            if names & rebound:
                continue
            if a[0] in ('in', 'empty', 'truthy', 'disjoint', 'lencmp') and names & mutated:
                continue
            out.add(a)
        return frozenset(out)

    work = [cfg.entry]
    while work:
        n = work.pop()
        cur = state[n]
        node = cfg.node[n]
        after = kill(cur, node)
        for (s, lab) in cfg.succ[n]:
            out = after
            if node.kind in ('test', 'assert') and lab in (True, False):
                gen = [a for a in atoms_of(node.expr, lab) if a[0] != 'or']
                out = frozenset(set(after) | set(gen))
            if lab == 'exc':
                out = cur
            old = state[s]
            new = out if old is TOP else (old & out)
            if old is TOP or new != old:
                state[s] = new
                work.append(s)
    fx._must = {n: (v if v is not None else frozenset()) for n, v in state.items()}
    return fx._must


def expr_guard_atoms(fnode, e):
    """atoms that hold whenever the expression e is evaluated because of the EXPRESSION context it sits in: the test of an
    enclosing conditional expression, earlier operands of an enclosing `and` / `or`, the conditions of an enclosing
    comprehension (statement-level guards are not included)"""
    parent = {}
    for n in ast.walk(fnode):
        for c in ast.iter_child_nodes(n):
            parent[id(c)] = n
    out = []
    cur = e
    while id(cur) in parent:
        p = parent[id(cur)]
        if isinstance(p, ast.stmt):
            break
        if isinstance(p, ast.IfExp):
            if cur is p.body:
                out += atoms_of(p.test, True)
            elif cur is p.orelse:
                out += atoms_of(p.test, False)
        elif isinstance(p, ast.BoolOp):
            idx = [i for i, v in enumerate(p.values) if v is cur]
            if idx:
                for v in p.values[:idx[0]]:
                    out += atoms_of(v, isinstance(p.op, ast.And))
        elif isinstance(p, ast.comprehension):
            if cur in p.ifs:
                i = p.ifs.index(cur)
                for v in p.ifs[:i]:
                    out += atoms_of(v, True)
        elif isinstance(p, (ast.ListComp, ast.SetComp, ast.GeneratorExp, ast.DictComp)):
            if cur is getattr(p, 'elt', None) or cur is getattr(p, 'key', None) or cur is getattr(p, 'value', None):
                for g in p.generators:
                    for v in g.ifs:
                        out += atoms_of(v, True)
        cur = p
    return out
