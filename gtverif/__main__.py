"""CLI:  python -m gtverif check <Cxx> [--tier quick|thorough]
          python -m gtverif explain <replay.json>
          python -m gtverif all [--tier ...]
Exit codes: 0 held (known findings are printed, not failed); 1 unlisted violation; 2 ANALYSIS-ERROR.
"""
import argparse
import json
import os
import sys
import time
import traceback

from .model import AnalysisError, Program
from .report import (HOLDS, UNDECIDED, VIOLATES, Report, check_floors, load_known_findings, match_known,
                     write_evidence, write_replay)


def run_property(prop, overrides=None, repo=None):
    from .context import Ctx
    from . import props
    prog = Program(repo=repo, overrides=overrides)
    ctx = Ctx(prog)
    rep = Report(prop)
    fn = props.REGISTRY.get(prop)
    if fn is None:
        raise AnalysisError('no check registered for property {}'.format(prop))
    fn(ctx, rep)
    from .report import model_precedence
    model_precedence(rep, ctx)
    return rep


def triage(rep):
    findings = load_known_findings()
    known, unlisted = [], []
    seen = set()
    for inst in rep.violations():
        if inst.key() in seen:
            continue
        seen.add(inst.key())
        k = match_known(inst, rep.prop, findings)
        if k is not None:
            known.append((inst, k))
        else:
            unlisted.append(inst)
    return known, unlisted


def cmd_check(prop, tier, seed):
    t0 = time.time()
    rep = None
    try:
        rep = run_property(prop)
        known, unlisted = triage(rep)
        if not unlisted:
            # non-vacuity only gates a clean verdict: a violation found on the tree is reported as such
            check_floors(rep)
        selftest = None
        from . import selftest as st
        if not unlisted:
            # the self-test only matters for a verdict of 0: a violation found on the tree is reported as such
            selftest = st.run(prop, tier, seed, base_keys={i.key() for i in rep.violations()})
            if selftest.get('missed'):
                raise AnalysisError('self-test: {} control mutant(s) not detected: {}'.format(
                    len(selftest['missed']), ', '.join(selftest['missed'][:5])))
            if selftest.get('false_alarms'):
                raise AnalysisError('self-test: {} behaviour-preserving variant(s) raised an alarm: {}'.format(
                    len(selftest['false_alarms']), ', '.join(selftest['false_alarms'][:5])))
    except AnalysisError as e:
        print('ANALYSIS-ERROR property={} {}'.format(prop, e))
        if rep is None:
            rep = Report(prop)
        rep.note('ANALYSIS-ERROR: {}'.format(e))
        rep.clauses_decided = rep.clauses_decided or ['none (analysis error)']
        rep.not_decided = rep.not_decided or ['everything']
        write_evidence(rep, tier, seed, time.time() - t0, [], [], status='analysis-error')
        return 2
    except Exception:
        traceback.print_exc()
        print('ANALYSIS-ERROR property={} internal exception (see traceback)'.format(prop))
        return 2
    by_rule = {}
    for i in rep.instances:
        r = by_rule.setdefault(i.rule, [0, 0, 0])
        r[[HOLDS, VIOLATES, UNDECIDED].index(i.verdict)] += 1
    print('property {} tier {}: {} functions analysed, {} obligations'.format(prop, tier, len(rep.functions), len(rep.instances)))
    for r in sorted(by_rule):
        h, v, ud = by_rule[r]
        print('  {:<22} holds={:<3} violates={:<3} undecided={}'.format(r, h, v, ud))
    for i in rep.instances:
        if i.verdict == UNDECIDED:
            print('  UNDECIDED {} {} :: {} -- {}'.format(i.rule, i.where, i.construct, i.reason))
    for n in rep.notes:
        print('  note: {}'.format(n))
    if selftest:
        print('  self-test: {} mutants, {} detected, {} skipped; {} refactorings quiet'.format(
            selftest.get('mutants', 0), selftest.get('killed', 0), len(selftest.get('skipped', [])), selftest.get('quiet', 0)))
    for inst, k in known:
        print('KNOWN-FINDING: property={} rule={} {} :: {} -- {}'.format(prop, inst.rule, inst.where, inst.construct, k.get('what', inst.reason)))
    code = 0
    for n, inst in enumerate(unlisted):
        path = write_replay(rep, inst, n)
        print('VIOLATION property={} replay={}'.format(prop, path))
        print('  {} {}{} :: {}'.format(inst.rule, inst.where, ':%d' % inst.line if inst.line else '', inst.construct))
        print('  reason: {}'.format(inst.reason))
        code = 1
    write_evidence(rep, tier, seed, time.time() - t0, unlisted, [i for i, _ in known], selftest=selftest)
    return code


def cmd_explain(path):
    with open(path, 'r', encoding='utf8') as f:
        d = json.load(f)
    i = d['instance']
    print('property {}: rule {} violated'.format(d['property'], i['rule']))
    print('  where:     {}{}'.format(i.get('file', i['where']), ':%d' % i['line'] if i.get('line') else ''))
    print('  function:  {}'.format(i['where']))
    print('  construct: {}'.format(i['construct']))
    print('  reason:    {}'.format(i['reason']))
    print('re-run: /venv/bin/python -m gtverif check {}'.format(d['property']))
    return 0


def main(argv=None):
    ap = argparse.ArgumentParser(prog='gtverif')
    sub = ap.add_subparsers(dest='cmd', required=True)
    c = sub.add_parser('check')
    c.add_argument('prop')
    c.add_argument('--tier', default=os.environ.get('VERIF_TIER') or 'quick', choices=['quick', 'thorough'])
    e = sub.add_parser('explain')
    e.add_argument('path')
    a = sub.add_parser('all')
    a.add_argument('--tier', default=os.environ.get('VERIF_TIER') or 'quick', choices=['quick', 'thorough'])
    args = ap.parse_args(argv)
    try:
        seed = int(os.environ.get('VERIF_SEED', '0'))
    except ValueError:
        seed = 0
    if args.cmd == 'check':
        return cmd_check(args.prop, args.tier, seed)
    if args.cmd == 'explain':
        return cmd_explain(args.path)
    if args.cmd == 'all':
        from . import props
        worst = 0
        for p in sorted(props.REGISTRY):
            rc = cmd_check(p, args.tier, seed)
            worst = max(worst, rc)
        return worst
    return 2


if __name__ == '__main__':
    sys.stdout.reconfigure(line_buffering=True)
    rc = main()
    sys.stdout.flush()
    sys.exit(rc)
