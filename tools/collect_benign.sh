#!/bin/sh
# copies the deliverables of the refactoring sub-agents of one round (/tmp/seed/<id>-<round>/_seed/r*.diff, meta.json) to /verif/benign/<id>-<round>
# usage: collect_benign.sh <round> <id> ...
rnd=$1; shift
for id in "$@"; do
  src=/tmp/seed/$id-$rnd/_seed
  [ -f $src/meta.json ] || { echo "$id not ready"; continue; }
  mkdir -p /verif/benign/$id-$rnd
  cp $src/r1.diff $src/r2.diff $src/r3.diff $src/meta.json /verif/benign/$id-$rnd/ 2>/dev/null
  echo "$id ok"
done
