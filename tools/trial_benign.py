#!/usr/bin/env python3
"""Trial of all benign patches (or the globs given) against all 20 properties, in memory: prints every patch that raises a new violation or a non-vacuity / analysis error.  usage: trial_benign.py [glob ...]"""
import glob, subprocess, sys
from concurrent.futures import ThreadPoolExecutor
pats = sys.argv[1:] or ['/verif/benign/*/r*.diff']
files = sorted(f for p in pats for f in glob.glob(p))
def run(f):
    r = subprocess.run(['/venv/bin/python', '/verif/tools/try_patch.py', f, 'all'], capture_output=True, text=True)
    return f, r.stdout.strip() + r.stderr.strip()[-500:]
bad = 0
with ThreadPoolExecutor(2) as ex:
    for f, out in ex.map(run, files):
        if out:
            bad += 1
            print('==', f.replace('/verif/benign/', ''))
            print(out)
print('patches', len(files), 'with output', bad)
