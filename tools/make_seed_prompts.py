#!/usr/bin/env python3
"""Writes the task descriptions for one round of independently seeded regressions: /tmp/seed/prompts_<id>.txt, one per property.
The sub-agents see only that text and their own scratch worktree /tmp/seed/<id>-<round> (created by the caller with
`git -C /repo worktree add --detach`); nothing of /verif.  usage: make_seed_prompts.py <round letter>"""
import sys
RND = sys.argv[1]
import json,glob
props={json.loads(l)['id']:json.loads(l) for l in open('/verif/properties.jsonl')}
done={}
for d in sorted(glob.glob('/verif/seeded/C*')):
    try:
        m=json.load(open(d+'/meta.json'))
    except Exception: continue
    done.setdefault(m['property'],[]).extend(m.get('functions',[]))
tmpl='''You are helping to evaluate a verification effort for the Python library wiegerw/gambatools (formal-language algorithms: DFA/NFA/PDA/TM/CFG/regexp, plus Jupyter exercise checkers). Your job is to play the role of a developer who introduces a REALISTIC REGRESSION: a change that looks like ordinary maintenance (an optimisation, a tidy-up, a small feature, a generalisation, an "obviously equivalent" rewrite that is not) but breaks a stated property of the library, while everything still imports and the existing test suite still passes.

You have your own scratch git worktree of the repository at {wt} (package sources under src/gambatools, notebooks and their checkers under notebooks/, tests under tests/). Work ONLY inside that directory. Do not read or write anything under /verif or /repo, and do not look for verification tooling elsewhere on the machine. Run Python as /venv/bin/python with PYTHONPATH={wt}/src so that your worktree's sources are imported. Always run Python and pytest under `timeout 300` (pytest: `timeout 900`). Do NOT use `git stash`.

The property (id {pid}: {title}):

"{statement}"

It quantifies over: {quant}

The anchors of this property in the code base include: {anchors}.

Task: make ONE small change (ideally 1-25 changed lines, in one or two files under src/gambatools or notebooks/) after which the property is FALSE for at least one input (or history of calls, or hash seed -- whatever the property quantifies over), such that
 1. every module still imports and `cd {wt} && PYTHONPATH={wt}/src timeout 900 /venv/bin/python -m pytest -q -p no:cacheprovider tests` still reports 50 passed -- run it FIVE times, some tests are randomised;
 2. the change is plausible as an honest mistake of a competent developer -- no sabotage that a reviewer would spot at a glance (no `if w == 'abc': return False`, no random numbers, no dead code whose only purpose is to break);
 3. the property must really be the one that breaks: the function you change must be one of the anchors above or be CALLED (directly or through helpers) by them when the property's operations run -- check this by reading the call chain, not by guessing;
 4. colleagues have already used these functions in earlier rounds, choose another one if you reasonably can (if the property leaves no other function, a different KIND of mistake in one of them is fine): {done}.
 Kinds of mistake that are used up: off-by-one in a range, dropped epsilon closure, swapped operands, removed visited-set, mutable default argument, module-level cache, a fixed epsilon / comment character that collides with a legal symbol, an extra validation that rejects legal input, one set object shared by several dictionary entries, comparing numbers as strings, selecting occurrences by value instead of by position, a wrong nullability helper, DFS instead of BFS, a memo keyed too coarsely, in-place mutation of an argument, De Morgan slips, `any`/`all` confusion, `sorted(Q)` in one place and `list(Q)` in another, a bare `break` that leaves a loop early, a try/except that encloses too much, a default argument evaluated at definition time, a cached string used for `__eq__`, reusing an existing variable/state instead of a fresh one, a comprehension variable shadowing an outer name, a parameter inserted before another positional one, a shallow copy, names joined with a separator that may occur in the names, a one-shot iterator (groupby / generator) consumed twice, unbound `set.union(*[])`. Think of something else: a helper factored out of two call sites that fits only one of them; a "fast path" / early exit whose precondition is subtly weaker than the general path; truthiness confusing empty, None and 0 (`if x:` vs `if x is not None`, `x or default`); `is` vs `==`; `zip` silently truncating unequal lengths; a dict or set comprehension that silently merges entries with equal keys; `min`/`max`/`len` computed before a loop and stale afterwards; `for ... else` attached to the wrong loop; a store-then-mutate alias (an object put into a result and modified afterwards); `__hash__`/`__eq__`/`__lt__` that disagree; string methods (`strip`, `split`, `startswith`, `replace`) applied to names that may contain the separator or be empty; a condition that tests the first/last element only; an update that should be simultaneous done sequentially (reading values already overwritten); an accumulator initialised inside instead of outside a loop (or the reverse); an index that is advanced in one branch only; a boundary between "no transition" and "transition to the empty set"; a result built from the keys of a map instead of the declared set (or the reverse); `set` difference/intersection/union confused in a rarely exercised branch; a check done on the original after the copy was modified (or the reverse); a renamed state/variable not renamed everywhere (start state, final set, one side of the transitions); a recursion that forgets one constructor in a rarely used combination; a changed iteration order of alternatives where the first match wins.

Deliverables, all under {wt}/_seed/ (create the directory):
 - patch.diff : `git -C {wt} diff -- src notebooks > {wt}/_seed/patch.diff` (the change and nothing else);
 - demo.py : a self-contained script, run as `PYTHONPATH={wt}/src timeout 300 /venv/bin/python {wt}/_seed/demo.py`, that exits with status 1 (printing what went wrong) when the change is applied and with status 0 on the unchanged sources; it must show a violation of the PROPERTY AS STATED (compare against an independent reference: the textbook definition, brute force, or a hand-computed expected value), not merely a difference between old and new code; it must be deterministic (set PYTHONHASHSEED yourself via a subprocess if the effect depends on it);
 - meta.json : {{"property": "{pid}", "summary": "<what was changed, one or two sentences>", "needs": "<which inputs / histories expose it, and why the tests do not>", "files": [...], "functions": ["<qualified names of the functions you changed>"]}}.
Check both directions yourself: demo.py exits 1 with the change; then save the patch, run `git -C {wt} checkout -- src notebooks`, confirm demo.py exits 0, and re-apply with `git -C {wt} apply {wt}/_seed/patch.diff`. Leave the worktree with the change applied.

When finished, reply with the patch, a one-paragraph explanation, and the two exit codes you observed. Do not do anything else.'''
for pid,p in props.items():
    kw=dict(pid=pid,title=p['title'],statement=p['statement'],quant=p['quantifier']['text'],anchors='; '.join(x['where'] for x in p['anchors']['mechanism']))
    open('/tmp/seed/prompts_%s.txt'%pid,'w').write(tmpl.format(wt='/tmp/seed/%s-%s'%(pid,RND),done=', '.join(sorted(set(done.get(pid,[])))) or '(nothing yet)',**kw))
print(len(open('/tmp/seed/prompts_C12.txt').read()))
