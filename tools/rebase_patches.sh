#!/bin/sh
# Re-bases patches (seeded / benign) whose context was changed by a fix: commit in /repo: three-way apply in a scratch
# worktree of /repo HEAD (the base blobs named in the patch are in the history), then the diff is written back.
# usage: rebase_patches.sh <patch.diff> ...
set -e
wt=$(mktemp -d /tmp/rb-XXXXXX); rmdir "$wt"
git -C /repo worktree add -q --detach "$wt" HEAD
for p in "$@"; do
  git -C "$wt" checkout -q -- . 
  if git -C "$wt" apply --check "$p" 2>/dev/null; then echo "ok (applies): $p"; continue; fi
  if git -C "$wt" apply -3 "$p" >/dev/null 2>&1; then
    git -C "$wt" reset -q
    git -C "$wt" diff > "$p.new" && mv "$p.new" "$p" && echo "rebased: $p"
  else
    echo "CONFLICT: $p"
  fi
done
git -C /repo worktree remove --force "$wt"
