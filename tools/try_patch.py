#!/usr/bin/env python3
"""In-memory trial of a patch against the current /repo tree: which properties report NEW violations?
usage: try_patch.py <patch.diff> [C01,C02,...|all]"""
import json
import os
import sys
import multiprocessing

sys.path.insert(0, os.path.join(os.path.dirname(os.path.abspath(__file__)), '..'))
from gtverif.__main__ import run_property  # noqa: E402
from gtverif.model import AnalysisError  # noqa: E402
from gtverif.report import check_floors  # noqa: E402
from gtverif.selftest.runner import apply_unified_diff  # noqa: E402


def one(job):
    prop, ov = job
    try:
        base = {i.key() for i in run_property(prop).violations()}
        rep = run_property(prop, overrides=ov)
        new = [i for i in rep.violations() if i.key() not in base]
        try:
            check_floors(rep)
            err = None
        except AnalysisError as e:
            err = str(e)
        return prop, [(i.rule, i.where, i.construct[:60], i.reason[:160]) for i in new], err
    except AnalysisError as e:
        return prop, [], 'ANALYSIS-ERROR ' + str(e)
    except Exception as e:
        return prop, [], 'EXC ' + repr(e)


if __name__ == '__main__':
    patch = open(sys.argv[1]).read()
    ov = apply_unified_diff(patch)
    if ov is None:
        print('patch does not apply')
        sys.exit(2)
    props = sys.argv[2] if len(sys.argv) > 2 else 'all'
    props = ['C%02d' % i for i in range(1, 21)] if props == 'all' else props.split(',')
    with multiprocessing.Pool(min(16, len(props))) as pool:
        for prop, new, err in pool.map(one, [(p, ov) for p in props]):
            if new or err:
                print(prop, 'NEW VIOLATIONS' if new else '', err or '')
                seen = set()
                for x in new:
                    if (x[0], x[1]) in seen:
                        continue
                    seen.add((x[0], x[1]))
                    print('   ', x[0], x[1], '::', x[2], ('-- ' + x[3]) if os.environ.get('V') else '')
