#!/usr/bin/env python3
"""Writes the task descriptions for one round of behaviour-preserving refactorings by independent sub-agents:
/tmp/seed/prompts_<id>.txt, one per property.  The agents see only that text and their own scratch worktree
/tmp/seed/<id>-<round>; nothing of /verif.  The targets name the functions that the most recent rules look at, with
hints at legitimate rewrites that those rules must stay quiet on.  usage: make_refactor_prompts.py <round letter>"""
import sys, json, glob
RND = sys.argv[1]
props={json.loads(l)['id']:json.loads(l) for l in open('/verif/properties.jsonl')}
targets={'C01': 'NFA.__init__ / NFA._check_validity (e.g. named booleans, a helper that checks one transition), epsilon_closure (e.g. a deque as worklist, popping from the left, with the visited test at push time), nfa_accepts_word',
'C02': 'cfg_words_up_to_n, regexp_words_up_to_n (e.g. the cases of the expression as a table of small functions), pda_words_up_to_n, CFG.is_chomsky (e.g. explicit loops with early `return False`, correctly)',
'C03': 'nfa_to_dfa (e.g. accepting subsets computed after the exploration from the SUBSETS, not from their printed names; a deque as worklist), print_state_set, DFA._check_validity / DFA._is_total',
'C04': 'dfa_hopfcroft (e.g. the result assembled by a helper from the blocks; the initial block looked up among the blocks), dfa_quotient, dfa_minimize',
'C05': 'regexp_simplify (e.g. the cases as a dispatch on the class with helper functions simplify_sum / simplify_concat / simplify_iteration; `type(x) is Zero` style tests), regexp_accepts_word (e.g. splits enumerated with a helper generator)',
'C06': 'RegexpToNFAGenerator.generate (e.g. a dispatch table keyed by class; str(x) used ONLY for logging), regexp_to_nfa, dfa_to_regexp, gnfa_minimize',
'C07': 'CFG.is_chomsky, Rule.is_chomsky, Alternative.is_chomsky (e.g. explicit loops, a match on the length of the right-hand side, helper predicates -- exactly the same truth value for every right-hand side of length 0..4), cfg_accepts_word',
'C08': 'cfg_to_chomsky_in_place (e.g. a list of phases run in a loop, verbose printing in a helper), cfg_remove_epsilon_rules_in_place (e.g. duplicates removed while appending, ORDER of the rules preserved), cfg_fresh_variable, cfg_add_new_start_variable_in_place',
'C09': 'pda_epsilon_closure (e.g. a deque or list as worklist with the visited test at PUSH time so that the iteration budget is still spent per configuration), PDAState (e.g. __hash__ on a tuple of the fields while the stack stays a list and __eq__ unchanged), pda_accepts_word',
'C10': 'pda_to_cfg (e.g. the three groups of rules built by helpers, variables created through a memo table), pda_to_push_pop_in_place, pda_to_one_accepting_state_in_place',
'C11': 'tm_do_transition (e.g. the head movement as explicit if/elif/else with the left end handled first), tm_accepts_word, tm_simulate_word',
'C12': 'Alternative.is_chomsky / CFG.is_chomsky (e.g. rewritten with helper predicates, same truth value for every shape), cfg_check_chomsky, check_cfg_is_chomsky, check_automaton_accepts_rejects',
'C13': 'cfg_remove_epsilon_rules_in_place (e.g. an ordered de-duplication with a `seen` set while appending -- the ORDER of the rules must stay), print_dfa / print_nfa (e.g. lines collected in a list and joined; f-strings), cfg_print_simple, cfg_apply_chomsky',
'C14': 'dfa_union / dfa_intersection / dfa_symmetric_difference (e.g. functools.partial or a helper taking the product type -- bound correctly), dfa_product, dfa_complement, dfa_reverse',
'C15': 'PDAState (e.g. __str__ / __lt__ / __hash__ tidied while stack stays a list), pda_find_transition (e.g. a helper that computes the successor stack once), pda_simulate_word, pda_pop_push',
'C16': 'print_dfa, print_nfa, print_pda, print_tm (e.g. lines collected in a list and joined with newlines, f-strings, a shared helper for the transition lines -- the same text up to trailing whitespace the parser ignores), parse_nfa / parse_pda (keeping their own keyword sets), AutomatonParser.parse_line (e.g. a dispatch table for the declaration keywords)',
'C17': 'AutomatonParser / AutomatonBuilder (e.g. regular expressions compiled once in __init__ and used with .fullmatch; _check_no_duplicates via a set comparison that still names the duplicate), DFABuilder.build, NFABuilder.build, PDABuilder.build, TMBuilder.build (e.g. shared preamble helper that runs ALL the checks)',
'C18': '_add_nfa_transitions (e.g. called once per operand from a loop in the callers, each operand with ITS OWN epsilon), nfa_union, nfa_concatenation, nfa_repetition',
'C19': 'regexp_simplify (e.g. helper functions per constructor), gnfa_minimize (e.g. states ripped in sorted order), cfg_remove_epsilon_rules_in_place (order preserving), dfa_hopfcroft',
'C20': 'dfa_isomorphic (e.g. the two counting loops replaced by collections.Counter over the matched pairs, or by one loop that fills two dictionaries of partner lists -- still rejecting a state with two partners on either side), dfa_isomorphic1'}
rtmpl='''You are helping to evaluate a verification effort for the Python library wiegerw/gambatools (formal-language algorithms: DFA/NFA/PDA/TM/CFG/regexp, plus Jupyter exercise checkers). Your job is to play the role of a careful developer who REFACTORS code WITHOUT changing its behaviour.

You have your own scratch git worktree of the repository at {wt} (package sources under src/gambatools, notebooks under notebooks/, tests under tests/). Work ONLY inside that directory. Do not read or write anything under /verif or /repo, and do not look for verification tooling elsewhere on the machine. Run Python as /venv/bin/python with PYTHONPATH={wt}/src so that your worktree's sources are imported. Always run Python and pytest under `timeout 300` (pytest: `timeout 900`). Do NOT use `git stash`.

Context: the following property of the library must keep holding (id {pid}: {title}):

"{statement}"

Task: produce THREE independent behaviour-preserving refactorings r1, r2, r3, each a separate patch (ideally 5-30 changed lines) against the unchanged sources. At least two of the three must rework one of these functions (a different one each): {targets}. The third may touch any other function the property depends on. Make the edits the way a maintainer tidies, optimises or hardens code, and be bold in the FORM while keeping the MEANING exactly: replace an algorithmic idiom by another correct one, introduce or remove a helper (nested or module level), a lookup table, early returns, a named boolean for a condition, De Morgan forms, keyword arguments, `is None` defaults that are resolved at call time, generators that are consumed exactly once, index maps instead of list.index, explicit loops instead of comprehensions or the reverse, assertion messages, defensive copies where a copy is semantically invisible. The refactored code must return exactly the same results, leave its arguments exactly as untouched as before, terminate exactly when it did before, and raise exactly when it did before, FOR ALL INPUTS the property quantifies over (not only the tested ones). Do not fix bugs, do not change any behaviour, do not touch tests. Be certain about equivalence: think about empty sets, the empty word, budgets and bounds of 0, epsilon symbols other than the empty string, symbols that occur twice, states named like symbols, hash-order dependence, and logging switched on.

For each k in 1,2,3:
 - start from the unchanged sources (`git -C {wt} checkout -- src notebooks`), make the edit, run the test suite (cd {wt} && PYTHONPATH={wt}/src timeout 900 /venv/bin/python -m pytest -q -p no:cacheprovider tests ; 50 tests must pass), and compare old and new behaviour on a few hundred random or exhaustively enumerated small inputs with a throw-away script (keep a copy of the old function in the script);
 - save the patch: `mkdir -p {wt}/_seed && git -C {wt} diff -- src notebooks > {wt}/_seed/r$k.diff`.
Finally write {wt}/_seed/meta.json = {{"property": "{pid}", "refactorings": [{{"file": "r1.diff", "function": "...", "summary": "<one sentence>", "why_equivalent": "<one or two sentences>"}}, ...]}} and leave the worktree reverted to the unchanged sources.

When finished, reply with the three patches and their one-sentence summaries. Do not do anything else.'''
for pid,p in props.items():
    open('/tmp/seed/prompts_%s.txt'%pid,'w').write(rtmpl.format(wt='/tmp/seed/%s-%s'%(pid,RND),pid=pid,title=p['title'],statement=p['statement'],targets=targets[pid]))
print('ok')
