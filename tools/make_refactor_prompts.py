#!/usr/bin/env python3
"""Writes the task descriptions for one round of behaviour-preserving refactorings by independent sub-agents:
/tmp/seed/prompts_<id>.txt, one per property.  The agents see only that text and their own scratch worktree
/tmp/seed/<id>-<round>; nothing of /verif.  The targets name the functions that the most recent rules look at, with
hints at legitimate rewrites that those rules must stay quiet on.  usage: make_refactor_prompts.py <round letter>"""
import sys, json, glob
RND = sys.argv[1]
props={json.loads(l)['id']:json.loads(l) for l in open('/verif/properties.jsonl')}
targets={
'C01':'nfa_accepts_word (e.g. the step written with set.union over a list that starts with an empty set, or with an explicit loop and an early exit when no state is left), epsilon_closure (e.g. an early `continue` for states without epsilon moves), _nfa_cache, nfa_do_transition',
'C02':'nfa_words_up_to_n, dfa_words_up_to_n (e.g. a loop that stops when the frontier is empty), tm_words_up_to_n, words_up_to_n',
'C03':'nfa_to_dfa (e.g. the move step with an explicit membership test and `continue`, a search helper that returns at the first hit), nfa_do_transition, epsilon_closure',
'C04':'dfa_minimize together with dfa_from_table (e.g. one shared helper that enumerates the states, sorted(Q) in BOTH), dfa_quotient, dfa_hopfcroft',
'C05':'regexp_accepts_word (e.g. the star and concatenation cases as explicit loops over the split point with `break` after a success, or a for/else), regexp_simplify, the two parse-tree visitors (without changing what they build)',
'C06':'dfa_to_gnfa (e.g. grouping the parallel transitions per state pair with a dictionary of lists, or with itertools.groupby on data sorted by the SAME key), gnfa_minimize, dfa_to_regexp',
'C07':'cfg_accepts_word, cfg_cyk_matrix, cfg_to_chomsky_in_place (e.g. a table of phases), cfg_derivable_variables, cfg_eliminate_unit_rules_in_place (e.g. comparing symbols after an isinstance test)',
'C08':'cfg_make_rules_of_length_two_in_place (e.g. building the chain with zip, or a helper that splits one rule), cfg_eliminate_terminals_in_place, cfg_remove_epsilon_rules_in_place, cfg_add_new_start_variable_in_place',
'C09':'pda_epsilon_closure (e.g. `while True` with explicit breaks for the empty worklist and the limit), pda_do_transition (e.g. a direct key test before reading delta), pda_accepts_word',
'C10':'fresh_symbol (e.g. extra alphabets to avoid, written correctly with all/any), pda_to_accept_on_empty_stack_in_place, pda_to_push_pop_in_place, pda_to_cfg',
'C11':'tm_accepts_word and tm_simulate_word (e.g. a shared helper that yields the step numbers, with the budget 0 handled correctly), tm_do_transition',
'C12':'check_dfa_minimal (e.g. two one-sided size tests with different messages, or sizes compared in a helper), check_dfa_complement, check_nfa2dfa / check_nfa_to_dfa_answer, compare_languages',
'C13':'parse_word_list (e.g. a regular expression that also accepts commas, with the empty tokens filtered out), apply_command, nfa_to_dfa, dfa_reverse',
'C14':'dfa_no_prefix (e.g. built from the reachable part with a worklist and `continue` at accepting states), dfa_reverse, dfa_product, dfa_remove_unreachable_states (e.g. a worklist instead of levels)',
'C15':'nfa_find_transition (e.g. a direct lookup guarded by a key test, or .get with a default), pda_find_transition, nfa_find_epsilon_path (e.g. stop the search when the target is popped), cfg_derive_word',
'C16':'the parse-tree visitors of regexp_parser.py and regexp_simple_parser.py (e.g. one generic helper, explicit constructor calls -- building exactly the same trees), print_regexp_simple, print_regexp, print_nfa',
'C17':'PDA._check_validity, NFA._check_validity, DFA._check_validity (e.g. assertion messages, conditions merged or split correctly, De Morgan forms that are right), PDABuilder.build, AutomatonBuilder.get_symbol_set',
'C18':'_fresh_nfa_state (e.g. several state sets passed separately, tested correctly), nfa_union, nfa_repetition, nfa_concatenation',
'C19':'dfa_from_table and dfa_minimize (e.g. a shared enumeration helper), dfa_hopfcroft, cfg_remove_useless_rules / other pure-in_place twins, pda_epsilon_closure',
'C20':'dfa_isomorphic1 (e.g. the two tests of a popped pair merged into named booleans with the acceptance test, in positive or negative form, written correctly), dfa_isomorphic',
}
rtmpl='''You are helping to evaluate a verification effort for the Python library wiegerw/gambatools (formal-language algorithms: DFA/NFA/PDA/TM/CFG/regexp, plus Jupyter exercise checkers). Your job is to play the role of a careful developer who REFACTORS code WITHOUT changing its behaviour.

You have your own scratch git worktree of the repository at {wt} (package sources under src/gambatools, notebooks under notebooks/, tests under tests/). Work ONLY inside that directory. Do not read or write anything under /verif or /repo, and do not look for verification tooling elsewhere on the machine. Run Python as /venv/bin/python with PYTHONPATH={wt}/src so that your worktree's sources are imported. Always run Python and pytest under `timeout 300` (pytest: `timeout 900`). Do NOT use `git stash`.

Context: the following property of the library must keep holding (id {pid}: {title}):

"{statement}"

Task: produce THREE independent behaviour-preserving refactorings r1, r2, r3, each a separate patch (ideally 5-30 changed lines) against the unchanged sources. At least two of the three must rework one of these functions (a different one each): {targets}. The third may touch any other function the property depends on. Make the edits the way a maintainer tidies, optimises or hardens code, and be bold in the FORM while keeping the MEANING exactly: replace an algorithmic idiom by another correct one, introduce or remove a helper (nested or module level), a lookup table, early returns, a named boolean for a condition, De Morgan forms, keyword arguments, `is None` defaults that are resolved at call time, generators that are consumed exactly once, index maps instead of list.index, explicit loops instead of comprehensions or the reverse, assertion messages, defensive copies where a copy is semantically invisible. The refactored code must return exactly the same results, leave its arguments exactly as untouched as before, terminate exactly when it did before, and raise exactly when it did before, FOR ALL INPUTS the property quantifies over (not only the tested ones). Do not fix bugs, do not change any behaviour, do not touch tests. Be certain about equivalence: think about empty sets, the empty word, budgets and bounds of 0, epsilon symbols other than the empty string, symbols that occur twice, states named like symbols, hash-order dependence, and logging switched on.

For each k in 1,2,3:
 - start from the unchanged sources (`git -C {wt} checkout -- src notebooks`), make the edit, run the test suite (cd {wt} && PYTHONPATH={wt}/src timeout 900 /venv/bin/python -m pytest -q -p no:cacheprovider tests ; 50 tests must pass), and compare old and new behaviour on a few hundred random or exhaustively enumerated small inputs with a throw-away script (keep a copy of the old function in the script);
 - save the patch: `mkdir -p {wt}/_seed && git -C {wt} diff -- src notebooks > {wt}/_seed/r$k.diff`.
Finally write {wt}/_seed/meta.json = {{"property": "{pid}", "refactorings": [{{"file": "r1.diff", "function": "...", "summary": "<one sentence>", "why_equivalent": "<one or two sentences>"}}, ...]}} and leave the worktree reverted to the unchanged sources.

When finished, reply with the three patches and their one-sentence summaries. Do not do anything else.'''
for pid,p in props.items():
    open('/tmp/seed/prompts_%s.txt'%pid,'w').write(rtmpl.format(wt='/tmp/seed/%s-%s'%(pid,RND),pid=pid,title=p['title'],statement=p['statement'],targets=targets[pid]))
print('ok')
