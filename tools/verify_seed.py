#!/usr/bin/env python3
"""Verify a seeded change and run the checks against it.

usage: verify_seed.py <seed dir with patch.diff, demo.py, meta.json> [--props C01,C19] [--all]

In a scratch worktree of /repo HEAD: apply patch, run the test suite (must pass), run demo (must exit 1),
revert, run demo (must exit 0), re-apply, run the gtverif checks with GTVERIF_REPO=<worktree> and a scratch
evidence directory; remove the worktree.
"""
import json
import os
import shutil
import subprocess
import sys
import tempfile

seed = os.path.abspath(sys.argv[1])
props = None
run_all = '--all' in sys.argv
for i, a in enumerate(sys.argv):
    if a == '--props':
        props = sys.argv[i + 1].split(',')
meta = json.load(open(os.path.join(seed, 'meta.json')))
if props is None:
    props = [meta['property']]
if run_all:
    props = ['C%02d' % i for i in range(1, 21)]
wt = tempfile.mkdtemp(prefix='vs-', dir='/tmp')
os.rmdir(wt)
subprocess.check_call(['git', '-C', '/repo', 'worktree', 'add', '-q', '--detach', wt, 'HEAD'])
out = {'seed': seed, 'property': meta['property']}
try:
    env = dict(os.environ, PYTHONPATH=os.path.join(wt, 'src'))
    r = subprocess.run(['git', '-C', wt, 'apply', '--whitespace=nowarn', os.path.join(seed, 'patch.diff')], capture_output=True, text=True)
    if r.returncode != 0:
        r = subprocess.run(['git', '-C', wt, 'apply', '-3', '--whitespace=nowarn', os.path.join(seed, 'patch.diff')], capture_output=True, text=True)
    out['applies'] = r.returncode == 0
    if not out['applies']:
        out['apply_error'] = r.stderr[-400:]
    else:
        t = subprocess.run(['/venv/bin/python', '-m', 'pytest', '-q', '-p', 'no:cacheprovider', 'tests'], cwd=wt, env=env, capture_output=True, text=True)
        out['tests_pass'] = t.returncode == 0
        out['tests_tail'] = t.stdout.strip().splitlines()[-1] if t.stdout.strip() else ''
        # the demonstration is run from <worktree>/_seed/, where its author ran it (some locate notebooks/ relative to it)
        os.makedirs(os.path.join(wt, '_seed'), exist_ok=True)
        demo = os.path.join(wt, '_seed', 'demo.py')
        shutil.copy(os.path.join(seed, 'demo.py'), demo)
        d1 = subprocess.run(['/venv/bin/python', demo], cwd=wt, env=env, capture_output=True, text=True, timeout=600)
        out['demo_with_change'] = d1.returncode
        # (no git stash here: the stash list is shared by all worktrees of a repository)
        subprocess.check_call(['git', '-C', wt, 'diff', '--output', os.path.join(wt, '.applied.diff')])
        subprocess.check_call(['git', '-C', wt, 'checkout', '-q', '--', '.'])
        d0 = subprocess.run(['/venv/bin/python', demo], cwd=wt, env=env, capture_output=True, text=True, timeout=600)
        out['demo_without_change'] = d0.returncode
        subprocess.check_call(['git', '-C', wt, 'apply', '--whitespace=nowarn', os.path.join(wt, '.applied.diff')])
        os.remove(os.path.join(wt, '.applied.diff'))
        shutil.rmtree(os.path.join(wt, '_seed'), ignore_errors=True)
        evd = tempfile.mkdtemp(prefix='vsev-', dir='/tmp')
        out['checks'] = {}
        for p in props:
            env2 = dict(os.environ, GTVERIF_REPO=wt, GTVERIF_EVIDENCE_DIR=evd)
            c = subprocess.run(['/venv/bin/python', '-m', 'gtverif', 'check', p], cwd=os.environ.get('GTVERIF_DIR', '/verif'), env=env2, capture_output=True, text=True)
            lines = [l for l in c.stdout.splitlines() if l.startswith(('VIOLATION', 'ANALYSIS-ERROR', '  reason'))]
            rules = sorted({l.split()[0] for l in c.stdout.splitlines() if l.startswith('  R-') and ' :: ' in l})
            out['checks'][p] = {'rc': c.returncode, 'rules': rules, 'lines': lines[:6]}
        shutil.rmtree(evd, ignore_errors=True)
finally:
    subprocess.call(['git', '-C', '/repo', 'worktree', 'remove', '--force', wt])
print(json.dumps(out, indent=1))
