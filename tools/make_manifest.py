#!/usr/bin/env python3
"""Regenerates /verif/MANIFEST.json from gtverif.props.REGISTRY and gtverif.manifest_texts."""
import json
import os
import sys

HERE = os.path.dirname(os.path.dirname(os.path.abspath(__file__)))
sys.path.insert(0, HERE)
from gtverif import props, manifest_texts as mt   # noqa: E402

props_all = [json.loads(l) for l in open(os.path.join(HERE, 'properties.jsonl'))]
checks = []
na = []
for p in props_all:
    pid = p['id']
    if pid in props.REGISTRY and pid in mt.TEXT:
        t = mt.TEXT[pid]
        checks.append({
            'property_id': pid,
            'quick_cmd': '/venv/bin/python -m gtverif check {} --tier quick'.format(pid),
            'thorough_cmd': '/venv/bin/python -m gtverif check {} --tier thorough'.format(pid),
            'evidence_file': '/verif/evidence/{}.json'.format(pid),
            'replay_cmd_template': '/venv/bin/python -m gtverif explain {path}',
            'engine': 'gtverif',
            'level_claimed': {'category': 'other', 'text': t['level'], 'design_ref': 'DESIGN.md section 5, ' + pid},
            'level_note': t['note'],
            'technique': t['technique'],
        })
    else:
        na.append({'property_id': pid, 'reason': mt.NOT_APPLICABLE.get(pid, 'check not built yet; no claim is made for this property')})
manifest = {
    'version': 1,
    'setup_cmd': '/venv/bin/python -m compileall -q gtverif && /venv/bin/python -c "import gtverif.props"',
    'hooks': {'guard': 'GAMBATOOLS_VERIF', 'enable': 'none needed: the analyser parses /repo sources and never runs them; no hook or instrumentation exists in /repo',
              'baseline_off_cmd': 'cd /repo && /venv/bin/python -m pytest -ra -q -p no:cacheprovider --timeout=900 --continue-on-collection-errors',
              'source_commits': [], 'add_only': True},
    'engines': [{'name': 'gtverif', 'path': '/verif/gtverif', 'serves_properties': [c['property_id'] for c in checks],
                 'kind_free_text': 'custom static analysis over the Python AST (stdlib ast only): program model with resolved calls, '
                                   'shape/type inference, statement CFG with dominators and edge-dominating guards, alias/effect summaries, '
                                   'repository-specific rules, extracted finite models decided in the analyser'}],
    'checks': checks,
    'notes': 'All checks are static (parse, never run /repo code). Exit 0: no unlisted violation; 1: VIOLATION lines; 2: ANALYSIS-ERROR '
             '(vanished anchor, parse failure, instance floor breached, control mutant missed). Known findings: /verif/known_findings.json.',
    'not_applicable': na,
}
with open(os.path.join(HERE, 'MANIFEST.json'), 'w') as f:
    json.dump(manifest, f, indent=1)
print('checks:', len(checks), 'not_applicable:', len(na))
