#!/usr/bin/env python3
"""Recomputes meta.json[current] of the seeds of one round (which properties report them on the current tree).  usage: seed_status.py <round letter>"""
import json, os, subprocess, sys, glob
sys.path.insert(0,'/verif')
from gtverif.__main__ import run_property
from gtverif.selftest.runner import apply_unified_diff
from multiprocessing import Pool
PROPS=['C%02d'%i for i in range(1,21)]
def one(job):
    sid, prop = job
    ov = apply_unified_diff(open('/verif/seeded/%s/patch.diff'%sid).read())
    if ov is None: return sid, prop, 'noapply'
    try:
        base = {i.key() for i in run_property(prop).violations()}
        rep = run_property(prop, overrides=ov)
        new = sorted({i.rule for i in rep.violations() if i.key() not in base})
        return sid, prop, new
    except Exception as e:
        return sid, prop, 'ERR '+str(e)[:120]
if __name__=='__main__':
    rnd = sys.argv[1]
    sids = sorted(os.path.basename(d) for d in glob.glob('/verif/seeded/C??-'+rnd))
    jobs = [(s,p) for s in sids for p in PROPS]
    res = {}
    with Pool(16) as pool:
        for sid, prop, r in pool.map(one, jobs):
            res.setdefault(sid, {})[prop] = r
    for sid in sids:
        own = sid[:3]
        m = json.load(open('/verif/seeded/%s/meta.json'%sid))
        allp = {p: r for p, r in res[sid].items() if r and not isinstance(r, str)}
        errs = {p: r for p, r in res[sid].items() if isinstance(r, str)}
        ownr = res[sid][own]
        if isinstance(ownr, str):
            cur = 'ANALYSIS-ERROR ' + ownr
        elif ownr:
            cur = 'VIOLATION ' + ', '.join(ownr)
        else:
            cur = 'not detected'
        m['current'] = {'own_property': cur, 'all_properties_reporting': allp}
        if errs: m['current']['errors'] = errs
        b = m.get('baseline_round'+rnd, {})
        m['history'] = 'own property at baseline: rc {} {}; after strengthening: {}'.format(b.get('own_property_rc'), b.get('own_property_rules'), cur)
        json.dump(m, open('/verif/seeded/%s/meta.json'%sid,'w'), indent=1)
        print(sid, '| baseline rc', b.get('own_property_rc'), b.get('own_property_rules'), '| now:', cur, '| others:', sorted(p for p in allp if p != own))
