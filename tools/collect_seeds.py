#!/usr/bin/env python3
"""Collects the deliverables of seeded-regression sub-agents (/tmp/seed/<id>-<round>/_seed) into /verif/seeded/<id>-<round>, verifies each with
tools/verify_seed.py against the /verif worktree at the round's baseline tag (GTVERIF_DIR=/tmp/verif-baseline) and records the first-contact result.
usage: collect_seeds.py <round> <id> ..."""
import json, os, shutil, subprocess, sys
from concurrent.futures import ThreadPoolExecutor
RND = sys.argv[1]
ids = sys.argv[2:]
def one(pid):
    src = '/tmp/seed/%s-%s/_seed' % (pid, RND)
    dst = '/verif/seeded/%s-%s' % (pid, RND)
    if not os.path.exists(src + '/meta.json'):
        return pid, 'not ready'
    os.makedirs(dst, exist_ok=True)
    for fn in ('patch.diff', 'demo.py', 'meta.json'):
        shutil.copy(os.path.join(src, fn), os.path.join(dst, fn))
    env = dict(os.environ, GTVERIF_DIR='/tmp/verif-baseline')
    r = subprocess.run(['/venv/bin/python', '/verif/tools/verify_seed.py', dst], capture_output=True, text=True, env=env)
    try:
        out = json.loads(r.stdout[r.stdout.index('{'):])
    except Exception as e:
        return pid, 'verify failed: ' + r.stdout[-300:] + r.stderr[-300:]
    m = json.load(open(dst + '/meta.json'))
    m['round'] = RND
    m['verification'] = {k: out.get(k) for k in ('applies', 'tests_pass', 'tests_tail', 'demo_with_change', 'demo_without_change')}
    m['verification']['verified_against_repo_head'] = subprocess.check_output(['git', '-C', '/repo', 'rev-parse', '--short', 'HEAD'], text=True).strip()
    c = out.get('checks', {}).get(pid, {})
    m['baseline_round' + RND] = {'verif_commit': 'round%s-baseline' % RND, 'own_property_rc': c.get('rc'), 'own_property_rules': c.get('rules'), 'lines': c.get('lines')}
    json.dump(m, open(dst + '/meta.json', 'w'), indent=1)
    return pid, '{} tests={} demo={}/{} baseline rc={} {}'.format(out.get('applies'), out.get('tests_pass'), out.get('demo_with_change'), out.get('demo_without_change'), c.get('rc'), c.get('rules'))
with ThreadPoolExecutor(5) as ex:
    for pid, msg in ex.map(one, ids):
        print(pid, msg)
