#!/usr/bin/env python3
"""Regenerate gtverif/floors.json from the instance counts decided on the CURRENT tree (run only on a tree that was
triaged by hand).  Tolerant floors: half of the count decided on the triaged tree, at least 1."""
import json
import math
import os
import sys

sys.path.insert(0, os.path.join(os.path.dirname(os.path.abspath(__file__)), '..'))
from gtverif import props  # noqa: E402
from gtverif.__main__ import run_property  # noqa: E402
from gtverif.report import HOLDS, VIOLATES  # noqa: E402

out = {}
ALL_COUNTS = {}
for p in sorted(props.REGISTRY):
    rep = run_property(p)
    counts = {}
    for i in rep.instances:
        if i.verdict in (HOLDS, VIOLATES):
            counts[i.rule] = counts.get(i.rule, 0) + 1
    ALL_COUNTS[p] = counts
    fl = {}
    for r, c in sorted(counts.items()):
        # pattern rules: an instance exists only where the pattern occurs (a scan loop with a return, a memo, an index()
        # call ...); the pattern may legitimately disappear, so these rules carry no floor
        if r in ('R-WORK.W7', 'R-WORK.W6', 'R-INJ.index', 'R-INJ.memo', 'R-INJ.key', 'R-INJ.word'):
            continue
        # closure-wide pattern rules: they are applied to whatever the call-graph closure of the property's operations
        # contains, so their instance count follows the shape of the call graph, not an anchor of the property
        if r.startswith(('R-INJ', 'R-SORT', 'R-EPS.const', 'R-EPS.default', 'R-EPS.word', 'R-EPS.rekey', 'R-WORK.recmemo', 'R-WORK.W10')):
            continue
        # guarded reads are an anchored rule of C01, C03 and C19; elsewhere they are applied to the closure
        if r == 'R-EFFECT.c' and p not in ('C01', 'C03', 'C19'):
            continue
        # half of what was confirmed on the triaged tree: instances are counted per occurrence (per read of G.R, per
        # call site ...), and behaviour-preserving refactorings (a local alias, a helper) were seen to remove up to
        # half of the occurrences of a rule (round s); the floor is there to catch a rule going vacuous, not to pin
        # the number of occurrences
        f = max(1, math.floor(0.5 * c))
        fl[r] = f
    out[p] = fl
path = os.path.join(os.path.dirname(os.path.abspath(__file__)), '..', 'gtverif', 'floors.json')
# a regenerated floor must never hide a rule that silently stopped deciding: compare with the file being replaced
try:
    old = json.load(open(path))
except (OSError, ValueError):
    old = {}
for p in sorted(old):
    for r, f0 in sorted(old[p].items()):
        c = ALL_COUNTS.get(p, {}).get(r, 0)
        if c < f0:
            print('WARNING: {} {} decides {} instance(s) now, the previous floor was {} -- check before committing'.format(p, r, c, f0))
json.dump(out, open(path, 'w'), indent=1, sort_keys=True)
print('rules with a floor:', sum(len(v) for v in out.values()))
