#!/usr/bin/env python3
"""Regenerate gtverif/floors.json from the instance counts decided on the CURRENT tree (run only on a tree that was
triaged by hand).  Tolerant floors: 1 for a singleton, count-1 below five, 70 % otherwise; 50 % for the closure-wide
rules whose instance count follows the size of the call-graph closure (R-SORT, R-INJ.*)."""
import json
import math
import os
import sys

sys.path.insert(0, os.path.join(os.path.dirname(os.path.abspath(__file__)), '..'))
from gtverif import props  # noqa: E402
from gtverif.__main__ import run_property  # noqa: E402
from gtverif.report import HOLDS, VIOLATES  # noqa: E402

out = {}
for p in sorted(props.REGISTRY):
    rep = run_property(p)
    counts = {}
    for i in rep.instances:
        if i.verdict in (HOLDS, VIOLATES):
            counts[i.rule] = counts.get(i.rule, 0) + 1
    fl = {}
    for r, c in sorted(counts.items()):
        # pattern rules: an instance exists only where the pattern occurs (a scan loop with a return, a memo, an index()
        # call ...); the pattern may legitimately disappear, so these rules carry no floor
        if r in ('R-WORK.W7', 'R-WORK.W6', 'R-INJ.index', 'R-INJ.memo', 'R-INJ.key', 'R-INJ.word'):
            continue
        if r.startswith(('R-SORT', 'R-INJ')):
            f = max(1, math.floor(0.5 * c))
        elif c == 1:
            f = 1
        elif c < 5:
            f = c - 1
        else:
            f = math.ceil(0.7 * c)
        fl[r] = f
    out[p] = fl
path = os.path.join(os.path.dirname(os.path.abspath(__file__)), '..', 'gtverif', 'floors.json')
json.dump(out, open(path, 'w'), indent=1, sort_keys=True)
print('rules with a floor:', sum(len(v) for v in out.values()))
