#!/usr/bin/env python3
"""In-memory trial of named self-test mutants: which of their properties report a new violation (and by which rule)?
usage: try_mutant.py <name-substring> ..."""
import os
import sys

sys.path.insert(0, os.path.join(os.path.dirname(os.path.abspath(__file__)), '..'))
from gtverif.__main__ import run_property  # noqa: E402
from gtverif.model import AnalysisError  # noqa: E402
from gtverif.selftest import corpus  # noqa: E402
from gtverif.model import REPO  # noqa: E402

for m in corpus.MUTANTS:
    name, props, path, old, new = m[:5]
    want = m[5] if len(m) > 5 else None
    if not any(a in name for a in sys.argv[1:]):
        continue
    src = open(os.path.join(REPO, path), encoding='utf8').read()
    if src.count(old) != 1:
        print(name, 'ANCHOR-COUNT', src.count(old))
        continue
    ov = {path: src.replace(old, new, 1)}
    for prop in props:
        try:
            base = {i.key() for i in run_property(prop).violations()}
            rep = run_property(prop, overrides=ov)
            newv = [i for i in rep.violations() if i.key() not in base]
            print(name, prop, 'want', want, '->', sorted({i.rule for i in newv}) or 'MISSED')
        except AnalysisError as e:
            print(name, prop, 'ANALYSIS-ERROR', e)
