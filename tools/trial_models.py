#!/usr/bin/env python3
"""Fast trial of the finite-model rules (rules/small_models2.py) and the closure-wide rules of round j against every benign patch
(and, with --seeded, every seeded patch): prints each patch on which one of them reports VIOLATES or, with -u, UNDECIDED.
In memory; a development tool.  usage: trial_models.py [-u] [--seeded] [glob ...]"""
import glob
import os
import sys
from multiprocessing import Pool

sys.path.insert(0, os.path.join(os.path.dirname(os.path.abspath(__file__)), '..'))


def one(path):
    from gtverif.selftest.runner import apply_unified_diff
    from gtverif.model import Program
    from gtverif.context import Ctx
    from gtverif.rules import small_models2 as m, truth
    from gtverif.report import Report
    ov = apply_unified_diff(open(path).read())
    if ov is None:
        return path, ['NOAPPLY']
    try:
        ctx = Ctx(Program(overrides=ov))
        rep = Report('X')
        P = ctx.prog.func
        if os.environ.get('TRIAL_SET') == '3':
            from gtverif.rules import small_models3 as m3
            for name in sorted(n for n in dir(m3) if n.startswith('check_')):
                getattr(m3, name)(ctx, rep)
            want = ('VIOLATES', 'UNDECIDED') if '-u' in sys.argv else ('VIOLATES',)
            return path, ['{} {} {}: {}'.format(i.verdict, i.rule, i.where, i.reason[:200]) for i in rep.instances if i.verdict in want]
        m.check_remove_unreachable(ctx, rep, P('dfa_algorithms.dfa_remove_unreachable_states'))
        for s in ('dfa_minimize', 'dfa_quotient', 'dfa_hopfcroft'):
            m.check_minimiser(ctx, rep, P('dfa_algorithms.' + s))
        for s in ('dfa_isomorphic', 'dfa_isomorphic1'):
            m.check_isomorphism(ctx, rep, P('dfa_algorithms.' + s))
        m.check_nullable(ctx, rep, P('cfg_algorithms.cfg_nullable_variables'))
        m.check_unit_elimination(ctx, rep, P('cfg_algorithms.cfg_eliminate_unit_rules_in_place'))
        for fn, op in (('nfa_union', 'union'), ('nfa_concatenation', 'concat'), ('nfa_repetition', 'star')):
            m.check_nfa_operation(ctx, rep, P('nfa_algorithms.' + fn), op)
        m.check_subset_name_readers(ctx, rep, P('notebook_nfa2dfa.check_nfa_to_dfa_answer'), P('dfa.print_state_set'))
        m.check_cfg_words(ctx, rep, P('cfg_algorithms.cfg_words_up_to_n'))
        m.check_nfa_acceptance(ctx, rep, P('nfa_algorithms.nfa_accepts_word'), P('nfa_algorithms.epsilon_closure'))
        m.check_subset_construction(ctx, rep, P('nfa_algorithms.nfa_to_dfa'))
        m.check_dfa_constructions(ctx, rep, {op: P('dfa_algorithms.dfa_' + op) for op in ('complement', 'union', 'intersection', 'symmetric_difference', 'reverse', 'no_prefix', 'no_extend')})
        m.check_regexp_matcher(ctx, rep, P('regexp_algorithms.regexp_accepts_word'))
        m.check_cyk(ctx, rep, P('cfg_algorithms.cfg_cyk_matrix'), P('cfg_algorithms.cfg_accepts_word'))
        m.check_enumerators(ctx, rep, P('dfa_algorithms.dfa_words_up_to_n'), P('nfa_algorithms.nfa_words_up_to_n'), P('regexp_algorithms.regexp_words_up_to_n'))
        m.check_pda_acceptance(ctx, rep, P('pda_algorithms.pda_accepts_word'))
        m.check_regexp_to_nfa(ctx, rep, P('regexp_algorithms.regexp_to_nfa'))
        m.check_dfa_to_regexp(ctx, rep, P('regexp_algorithms.dfa_to_regexp'))
        m.check_chomsky_phases(ctx, rep, [P('cfg_algorithms.' + n) for n in m._PHASES])
        m.check_accepts_rejects_checker(ctx, rep, P('notebook.check_automaton_accepts_rejects'))
        m.check_nfa_run(ctx, rep, P('nfa_algorithms.nfa_simulate_word'))
        m.check_pda_run(ctx, rep, P('pda_algorithms.pda_simulate_word'))
        m.check_language_helpers(ctx, rep, {n: P('language_algorithms.' + n) for n in ('language_no_prefix', 'language_no_extend', 'language_reverse', 'concatenation', 'words_up_to_n')})
        m.check_cfg_membership(ctx, rep, P('cfg_algorithms.cfg_accepts_word'))
        m.check_pda_to_cfg(ctx, rep, P('pda_algorithms.pda_to_cfg'))
        m.check_tm(ctx, rep, P('tm_algorithms.tm_accepts_word'), P('tm_algorithms.tm_simulate_word'))
        fs = []
        for f0 in ctx.prog.functions.values():
            st = [f0]
            while st:
                g0 = st.pop()
                fs.append(g0)
                st.extend(g0.nested.values())
        truth.check_sentinel_truthiness(ctx, rep, fs)
        truth.check_merging_comprehension(ctx, rep, fs)
    except Exception as e:
        return path, ['EXC ' + repr(e)[:200]]
    want = ('VIOLATES', 'UNDECIDED') if '-u' in sys.argv else ('VIOLATES',)
    return path, ['{} {} {}: {}'.format(i.verdict, i.rule, i.where, i.reason[:160]) for i in rep.instances if i.verdict in want]


if __name__ == '__main__':
    pats = [a for a in sys.argv[1:] if not a.startswith('-')] or (['/verif/seeded/*/patch.diff'] if '--seeded' in sys.argv else ['/verif/benign/*/r*.diff'])
    files = sorted(f for p in pats for f in glob.glob(p))
    bad = 0
    with Pool(16) as pool:
        for path, msgs in pool.imap(one, files):
            if msgs:
                bad += 1
                print('==', path.replace('/verif/', ''))
                for x in msgs:
                    print('   ', x)
    print('{} patches, {} with output'.format(len(files), bad))
