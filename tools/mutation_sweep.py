#!/usr/bin/env python3
"""Generic mutation sweep used to look for blind spots of the rules (a development tool, not a check).

Phase 1 generates single-point mutants of the hand-written modules of /repo (comparison / boolean / arithmetic /
set operators, any<->all, min<->max, break<->continue, small integer constants, deleted effect statements,
negated conditions) as source splices (comments and layout are kept).
Phase 2 runs the repository's test suite on each mutant in a scratch copy under /tmp (never in /repo) and keeps
the mutants the 50 tests do not notice.
Phase 3 gives every survivor to all 20 properties as an in-memory override and records which rules report a new
violation (or an analysis error).

usage: mutation_sweep.py gen|test|check|report [--out DIR] [--files a.py,b.py] [--limit N]
The result of each phase is a JSON file in DIR (default /tmp/msweep).
"""
import ast
import json
import os
import shutil
import subprocess
import sys
from multiprocessing import Pool

sys.path.insert(0, os.path.join(os.path.dirname(os.path.abspath(__file__)), '..'))
REPO = os.environ.get('GTVERIF_REPO', '/repo')
OUT = '/tmp/msweep'
for i, a in enumerate(sys.argv):
    if a == '--out':
        OUT = sys.argv[i + 1]

GENERATED = ('Lexer.py', 'Parser.py', 'Visitor.py', 'Listener.py')
SKIP = {'draw_sigma.py', 'notebook_experimental.py', 'logging.py', '__init__.py'}

CMP = {ast.Eq: '!=', ast.NotEq: '==', ast.Lt: '<=', ast.LtE: '<', ast.Gt: '>=', ast.GtE: '>', ast.In: 'not in', ast.NotIn: 'in',
       ast.Is: 'is not', ast.IsNot: 'is'}
BIN = {ast.Add: '-', ast.Sub: '+', ast.BitOr: '&', ast.BitAnd: '|'}
CALLS = {'any': 'all', 'all': 'any', 'min': 'max', 'max': 'min', 'sorted': 'list'}
EFFECT_METHODS = {'add', 'append', 'update', 'extend', 'remove', 'discard', 'insert', 'pop', 'sort', 'reverse', 'clear'}


def offsets(src):
    starts = [0]
    for line in src.split('\n'):
        starts.append(starts[-1] + len(line.encode('utf8')) + 1)
    return starts


def gen_file(path):
    src = open(os.path.join(REPO, path), encoding='utf8').read()
    b = src.encode('utf8')
    tree = ast.parse(src)
    st = offsets(src)

    def pos(n):
        return st[n.lineno - 1] + n.col_offset, st[n.end_lineno - 1] + n.end_col_offset

    out = []
    func_of = {}
    for f in ast.walk(tree):  # breadth first: inner functions come later and win
        if isinstance(f, (ast.FunctionDef, ast.AsyncFunctionDef)):
            for n in ast.walk(f):
                func_of[id(n)] = f.name

    def emit(s, e, text, op, node):
        out.append({'file': path, 'start': s, 'end': e, 'new': text, 'op': op, 'old': b[s:e].decode('utf8'), 'func': func_of.get(id(node), '<module>'),
                    'line': node.lineno})

    for n in ast.walk(tree):
        if id(n) not in func_of:
            continue
        if isinstance(n, ast.Compare) and len(n.ops) == 1 and type(n.ops[0]) in CMP:
            # operator text lies between left operand and comparator
            s = pos(n.left)[1]
            e = pos(n.comparators[0])[0]
            emit(s, e, ' ' + CMP[type(n.ops[0])] + ' ', 'cmp', n)
        elif isinstance(n, ast.BoolOp) and len(n.values) >= 2:
            for l, r in zip(n.values, n.values[1:]):
                s = pos(l)[1]
                e = pos(r)[0]
                between = b[s:e].decode('utf8')
                if '(' in between or ')' in between:
                    continue
                emit(s, e, ' or ' if isinstance(n.op, ast.And) else ' and ', 'bool', n)
        elif isinstance(n, ast.UnaryOp) and isinstance(n.op, ast.Not):
            s, e = pos(n)
            os_, oe = pos(n.operand)
            emit(s, e, '(' + b[os_:oe].decode('utf8') + ')', 'not', n)
        elif isinstance(n, ast.BinOp) and type(n.op) in BIN:
            s = pos(n.left)[1]
            e = pos(n.right)[0]
            between = b[s:e].decode('utf8')
            if '(' in between or ')' in between:
                continue
            emit(s, e, ' ' + BIN[type(n.op)] + ' ', 'bin', n)
        elif isinstance(n, ast.Call) and isinstance(n.func, ast.Name) and n.func.id in CALLS:
            s, e = pos(n.func)
            emit(s, e, CALLS[n.func.id], 'call', n)
        elif isinstance(n, ast.Constant) and type(n.value) is int and n.value in (0, 1, 2):
            s, e = pos(n)
            emit(s, e, str({0: 1, 1: 0, 2: 1}[n.value]), 'const', n)
        elif isinstance(n, ast.Break):
            s, e = pos(n)
            emit(s, e, 'continue', 'brk', n)
        elif isinstance(n, ast.Continue):
            s, e = pos(n)
            emit(s, e, 'break', 'brk', n)
        elif isinstance(n, ast.Expr) and isinstance(n.value, ast.Call) and isinstance(n.value.func, ast.Attribute) and n.value.func.attr in EFFECT_METHODS:
            s, e = pos(n)
            emit(s, e, 'pass', 'del', n)
        elif isinstance(n, ast.AugAssign):
            s, e = pos(n)
            emit(s, e, 'pass', 'del', n)
        elif isinstance(n, (ast.If, ast.While)) and not isinstance(n.test, ast.UnaryOp):
            s, e = pos(n.test)
            emit(s, e, 'not (' + b[s:e].decode('utf8') + ')', 'neg', n)
        elif isinstance(n, ast.Slice):
            for part, nm in ((n.lower, 'lo'), (n.upper, 'hi')):
                if part is not None:
                    s, e = pos(part)
                    emit(s, e, '(' + b[s:e].decode('utf8') + ') + 1', 'slice', n)
    return out


def files():
    sel = None
    for i, a in enumerate(sys.argv):
        if a == '--files':
            sel = set(sys.argv[i + 1].split(','))
    r = []
    for fn in sorted(os.listdir(os.path.join(REPO, 'src/gambatools'))):
        if not fn.endswith('.py') or fn.endswith(GENERATED) or fn in SKIP:
            continue
        if sel and fn not in sel:
            continue
        r.append('src/gambatools/' + fn)
    return r


def mutated_source(m):
    b = open(os.path.join(REPO, m['file']), encoding='utf8').read().encode('utf8')
    return (b[:m['start']] + m['new'].encode('utf8') + b[m['end']:]).decode('utf8')


def _worker_dir():
    d = os.path.join(OUT, 'w%d' % os.getpid())
    if not os.path.exists(d):
        os.makedirs(d)
        shutil.copytree(os.path.join(REPO, 'src'), d + '/src', ignore=shutil.ignore_patterns('__pycache__', '*.egg-info'))
        shutil.copytree(os.path.join(REPO, 'tests'), d + '/tests', ignore=shutil.ignore_patterns('__pycache__'))
        for extra in ('setup.py', 'setup.cfg', 'pyproject.toml', 'pytest.ini', 'tox.ini', 'conftest.py'):
            if os.path.exists(os.path.join(REPO, extra)):
                shutil.copy(os.path.join(REPO, extra), d)
    return d


def test_one(m):
    src = mutated_source(m)
    try:
        compile(src, m['file'], 'exec')
    except SyntaxError:
        return 'syntax'
    d = _worker_dir()
    target = os.path.join(d, m['file'])
    orig = open(os.path.join(REPO, m['file']), encoding='utf8').read()
    open(target, 'w', encoding='utf8').write(src)
    try:
        env = dict(os.environ, PYTHONPATH=d + '/src', PYTHONDONTWRITEBYTECODE='1')
        try:
            r = subprocess.run(['/venv/bin/python', '-m', 'pytest', '-x', '-q', '-p', 'no:cacheprovider', '--timeout=60', 'tests'], cwd=d, env=env,
                               capture_output=True, text=True, timeout=240)
        except subprocess.TimeoutExpired:
            return 'killed-timeout'
        if r.returncode == 0:
            # once more (some tests are randomised)
            try:
                r2 = subprocess.run(['/venv/bin/python', '-m', 'pytest', '-x', '-q', '-p', 'no:cacheprovider', '--timeout=60', 'tests'], cwd=d, env=env,
                                    capture_output=True, text=True, timeout=240)
            except subprocess.TimeoutExpired:
                return 'killed-timeout'
            return 'survived' if r2.returncode == 0 else 'killed'
        return 'killed'
    finally:
        open(target, 'w', encoding='utf8').write(orig)


PROPS = ['C%02d' % i for i in range(1, 21)]
_base = {}


def check_one(job):
    k, m, prop = job
    from gtverif.__main__ import run_property
    from gtverif.model import AnalysisError
    from gtverif.report import check_floors
    try:
        if prop not in _base:
            _base[prop] = {i.key() for i in run_property(prop).violations()}
        rep = run_property(prop, overrides={m['file']: mutated_source(m)})
        new = sorted({i.rule for i in rep.violations() if i.key() not in _base[prop]})
        if new:
            return k, prop, new
        try:
            check_floors(rep)
        except Exception as e:
            return k, prop, 'EXIT2 ' + str(e)[:100]
        return k, prop, []
    except AnalysisError as e:
        return k, prop, 'EXIT2 ' + str(e)[:100]
    except Exception as e:
        return k, prop, 'EXC ' + repr(e)[:100]


def main():
    cmd = sys.argv[1]
    os.makedirs(OUT, exist_ok=True)
    if cmd == 'gen':
        ms = []
        for f in files():
            ms.extend(gen_file(f))
        for i, a in enumerate(sys.argv):
            if a == '--limit':
                import random
                random.Random(1).shuffle(ms)
                ms = ms[:int(sys.argv[i + 1])]
        json.dump(ms, open(OUT + '/mutants.json', 'w'), indent=0)
        print(len(ms), 'mutants')
    elif cmd == 'test':
        ms = json.load(open(OUT + '/mutants.json'))
        with Pool(16) as pool:
            res = pool.map(test_one, ms, chunksize=4)
        for m, r in zip(ms, res):
            m['tests'] = r
        json.dump(ms, open(OUT + '/tested.json', 'w'), indent=0)
        from collections import Counter
        print(Counter(res))
        for d in os.listdir(OUT):
            if d.startswith('w') and os.path.isdir(os.path.join(OUT, d)):
                shutil.rmtree(os.path.join(OUT, d))
    elif cmd == 'check':
        ms = [m for m in json.load(open(OUT + '/tested.json')) if m['tests'] == 'survived']
        jobs = [(k, m, p) for k, m in enumerate(ms) for p in PROPS]
        with Pool(16) as pool:
            res = pool.map(check_one, jobs, chunksize=5)
        for m in ms:
            m['reported'] = {}
        for k, prop, r in res:
            if r:
                ms[k]['reported'][prop] = r
        json.dump(ms, open(OUT + '/checked.json', 'w'), indent=0)
        print(len(ms), 'survivors;', sum(1 for m in ms if any(isinstance(v, list) for v in m['reported'].values())), 'reported as violation;',
              sum(1 for m in ms if m['reported'] and not any(isinstance(v, list) for v in m['reported'].values())), 'analysis error only')
    elif cmd == 'report':
        ms = json.load(open(OUT + '/checked.json'))
        for m in ms:
            viol = {p: v for p, v in m['reported'].items() if isinstance(v, list)}
            tag = 'VIOL' if viol else ('EXIT2' if m['reported'] else 'quiet')
            print('%-6s %-28s %-34s %-5s L%-4d %r -> %r  %s' % (tag, m['file'].split('/')[-1], m['func'], m['op'], m['line'], m['old'][:40], m['new'][:40],
                                                                 ','.join('%s:%s' % (p, '+'.join(v)) for p, v in sorted(viol.items()))[:120]))


if __name__ == '__main__':
    main()
