#!/usr/bin/env python3
"""All 20 properties on the unchanged tree: prints violations, undecided instances and floor breaches (should print only the known findings)."""
import sys
sys.path.insert(0,'/verif')
from gtverif.__main__ import run_property
from gtverif import props
from gtverif.report import check_floors
from multiprocessing import Pool
def one(p):
    try:
        rep=run_property(p)
    except Exception as e:
        return p, 'EXC '+repr(e)[:200]
    v=[(i.rule,i.where,i.construct[:50]) for i in rep.instances if i.verdict=='VIOLATES']
    u=[(i.rule,i.where,i.reason[:60]) for i in rep.instances if i.verdict=='UNDECIDED']
    try:
        check_floors(rep); fl=''
    except Exception as e:
        fl=str(e)[:150]
    return p, (len(rep.instances), v, u, fl)
if __name__=='__main__':
    with Pool(10) as pool:
        for p,r in pool.map(one, sorted(props.REGISTRY)):
            if isinstance(r,str) or r[1] or r[2] or r[3]:
                print(p, r)
    print('done')
